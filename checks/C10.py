"""C10 - Effective mTLS mode follows PeerAuthentication precedence and is enforced.

Proof: lean/IstioModel/C10/{Theorems,AmbientTheorems,Chains}.lean
  compose_eq_spec, namespace_mode_agrees, client_agrees, effectiveMode_order_independent (precedence),
  inbound_enforces (filter-chain table), ambient_strict_exact (ztunnel policy conversion).
Tie: T-diff - the real initAuthenticationPolicies / GetPeerAuthenticationsForWorkload /
  ComposePeerAuthentication / NewPolicyApplier / NewMtlsPolicy / BestEffortInferServiceMTLSMode /
  checkMtlsEnabled (stream compose) and the real fetchPeerAuthentications /
  convertedSelectorPeerAuthentications / getOldestPeerAuthn / convertPeerAuthentication (stream ambient)
  vs the Lean model, line by line; T-gen - the real getFilterChainMatchOptions table over its whole domain.
On break: harness `oracle` evaluates the property directly on the real code with an independent Go
  implementation of effectiveMode.
"""
import os

THEOREMS = ["IstioModel.C10.Theorems", "IstioModel.C10.Chains", "IstioModel.C10.InboundTheorems", "IstioModel.C10.InboundSelect",
            "IstioModel.C10.GenTie",
            "IstioModel.C10.AmbientTheorems"]
GENERATED = os.path.join(os.path.dirname(os.path.dirname(os.path.abspath(__file__))), "lean", "IstioModel", "Generated", "C10Chains.lean")
STREAMS = ("compose", "ambient", "inbound")


def fingerprint(stream, clause, klass):
    # the composed-client finding is keyed by its cause, whichever stream exhibits it
    if clause == "client-composed":
        stream = "compose"
    return "%s:%s:%s" % (stream, clause, klass)


def case_of(lines, i):
    starts = [k for k, l in enumerate(lines) if l.startswith("case")]
    s = starts[i]
    e = starts[i + 1] if i + 1 < len(starts) else len(lines)
    return lines[s:e]


def run_oracle(ctx, stream, ops, count=False):
    """Returns list of (case_index, verdict_line) that FAIL, and the number of verdicts."""
    out = ops + ".verdict"
    if os.path.exists(out):
        os.remove(out)
    rc, log = ctx.harness("oracle", stream, ops, out)
    if rc != 0 or not os.path.exists(out):
        return None, 0
    verdicts = ctx.read_lines(out)
    if count and os.path.exists(out + ".stats"):
        # what the oracle judged, per input class (mode x target / non-target port x op, client kinds, known-class hits, ...)
        for l in ctx.read_lines(out + ".stats"):
            k, _, n = l.rpartition(" ")
            if k and n.isdigit():
                ctx.count("oracle.%s.%s" % (stream, k), int(n))
    return [(i, v) for i, v in enumerate(verdicts) if v.startswith("FAIL")], len(verdicts)


def report(ctx, stream, ops, bad, rep=None):
    """One violation per distinct (clause, class) fingerprint."""
    lines = ctx.read_lines(ops)
    seen = set()
    for i, v in bad:
        f = v.split()
        clause, klass = f[1], f[2]
        fp = fingerprint(stream, clause, klass)
        if fp in seen:
            continue
        seen.add(fp)
        ctx.violation(fp,
                      "clause '%s' of the property fails on the real code (input class %s)" % (clause, klass),
                      {"stream": stream, "ops": case_of(lines, i), "oracle_verdict": v, "correspondence": rep}, True)


def oracle(ctx, stream, case_lines, rep):
    """Property-level search on the implementation: first the shrunk case, then everything generated."""
    p = os.path.join(ctx.work, "%s.oracle.ops" % stream)
    with open(p, "w") as f:
        f.write("\n".join(case_lines) + "\n")
    cands = [p]
    g = os.path.join(ctx.work, "%s.gen.ops" % stream)
    if os.path.exists(g):
        cands.append(g)
    for ops in cands:
        bad, _ = run_oracle(ctx, stream, ops)
        # a recorded known finding never explains a broken correspondence
        known = {k.get("fingerprint") for k in ctx.known if k.get("status") == "known"}
        bad = [(i, v) for i, v in (bad or []) if fingerprint(stream, v.split()[1], v.split()[2]) not in known]
        if bad:
            i, v = bad[0]
            f = v.split()
            return (fingerprint(stream, f[1], f[2]),
                    "clause '%s' of the property fails on the real code (input class %s)" % (f[1], f[2]),
                    {"stream": stream, "ops": case_of(ctx.read_lines(ops), i), "oracle_verdict": v, "correspondence": rep})
    return None


def branch_counters(ctx, stream):
    """Input-distribution counters beyond the op counts: which branches of the generators' space a run reached."""
    import re
    g = os.path.join(ctx.work, "%s.gen.ops" % stream)
    impl = os.path.join(ctx.work, "%s.run.impl" % stream)
    if not (os.path.exists(g) and os.path.exists(impl)):
        return
    ops, out = ctx.read_lines(g), ctx.read_lines(impl)
    seen_read = False
    for l, o in zip(ops, out):
        f = l.split()
        if not f:
            continue
        op = f[0]
        if op == "case":
            seen_read = False
        if op in ("hc", "aw"):
            seen_read = True
        elif seen_read and op in ("pu", "pd", "pa"):
            # an edit applied to a living world (history)
            ctx.count("%s.history.edit.%s" % (stream, {"pu": "update", "pd": "delete", "pa": "create"}[op]))
        if op == "pa":
            ctx.count("%s.pa.level.%s" % (stream, "selector" if f[4] not in ("nil", "-") else ("empty-selector" if f[4] == "-" else "ns-or-mesh")))
            ctx.count("%s.pa.mode.%s" % (stream, f[5]))
            if f[6] != "-":
                ctx.count("%s.pa.port-level" % stream)
        elif op == "q" and f[3] != "-":
            ctx.count("%s.q.waypoint-service-namespace" % stream)
        if op == "q":
            for m in re.findall(r"Q=(\S+)", o):
                for e in m.split(","):
                    ctx.count("%s.q.mode.%s" % (stream, e.split(":")[-1]))
        elif op == "chk":
            ctx.count("%s.chk.dr.%s" % (stream, "none" if f[5] == "nil" else ("structured" if "/" in f[5] else "rule-level")))
            ctx.count("%s.chk.result.%s" % (stream, o.split()[0] if o else "?"))
        elif op in ("cl", "hc"):
            if op == "hc":
                ctx.count("%s.hc.reads" % stream)
            ctx.count("%s.cl.kind.%s" % (stream, f[4].split(":")[0]))
            ctx.count("%s.cl.port.%s" % (stream, f[5]))
            ctx.count("%s.cl.outcome.%s" % (stream, " ".join(o.split()[:2])))
        elif op == "ils":
            ctx.count("%s.ils.merge.%s" % (stream, f[4]))
            if len(f) == 6 and f[5] == "1":
                ctx.count("%s.ils.interception-none" % stream)
            for e in f[3].split(","):
                p = e.split(":")
                if len(p) == 4:
                    ctx.count("%s.ils.ingress.proto.%s" % (stream, p[1]))
                    if p[2] == "1":
                        ctx.count("%s.ils.ingress.user-tls" % stream)
                    if p[3] == "1":
                        ctx.count("%s.ils.ingress.capture-none" % stream)
        elif op == "ilp":
            for n in f[3].split(":"):
                ctx.count("%s.ilp.protocol.%s" % (stream, n))
        if op == "ilr":
            ctx.count("%s.ilr.services-on-reserved-target-ports" % stream, len(re.findall(r":(?:15001|15006|15021|15090):", l)))
        if op == "ils" and len(f) == 7 and f[6] == "1":
            ctx.count("%s.ils.unprivileged-proxy" % stream)
        if op in ("il", "ils", "ilh", "ilp", "ilt", "ilr"):
            ctx.count("%s.listener.chains-for-reserved-ports" % stream, len(re.findall(r"(?:^|,)(?:15001|15006|15008|15021|15090):", o)))
            ctx.count("%s.listener.custom-listeners" % stream, len(set(re.findall(r"L(\d+)/", o))))
            ctx.count("%s.listener.tls-inspector-ports" % stream, len(re.findall(r"ti:", o)))
            ctx.count("%s.listener.user-tls-chains" % stream, len(re.findall(r":1\.0\.[01]\.1(?:,| |$)", o)))
        elif op == "cv":
            # convertPeerAuthentication branches: nil (nothing to enforce / all merged into the static policy) or
            # the shape of the DENY policy (np = principal rule, dp / ndp = port rules)
            ctx.count("%s.cv.result.%s" % (stream, "nil" if o == "nil" else "+".join(sorted(set(re.findall(r"np|ndp|dp", o)))) or "other"))
        elif op == "aw":
            ctx.count("%s.aw.kind.%s" % (stream, f[1]))
            if f[1] == "we" and f[4] != "-" and f[3] != f[4]:
                ctx.count("%s.aw.we.spec-and-metadata-labels-differ" % stream)
            ctx.count("%s.aw.keys.%s" % (stream, "none" if o == "K=-" else ("static" if "static_strict" in o else "converted")))
        elif op == "aq":
            k = re.search(r"K=(\S+)", o)
            if k:
                ks = k.group(1)
                ctx.count("%s.aq.keys.%s" % (stream, "none" if ks == "-" else ("static+converted" if "," in ks else ("static" if "static_strict" in ks else "converted"))))


def nontrivial(cur, curo):
    return any(l.startswith("pa ") for l in cur)


def run(ctx):
    ctx.rule = ("cases = 0-6 PeerAuthentication policies (mesh / namespace / workload-selector / port-level; modes UNSET, "
                "DISABLE, PERMISSIVE, STRICT and nil; creation times from a 3-value pool, one case in four with a single "
                "time; names chosen so that the name tie-break differs from input order; root namespace sometimes a "
                "workload namespace; present-but-empty selectors and port-level on selector-less policies as malformed "
                "input; one policy in ten with a port-level entry on 15006 / 15001 / 15008 / 15021 / 15090 / 443) followed by 1-3 "
                "workload queries (labels aimed at a selector policy two times in three) over the seven ports "
                "{80, 8080, 9000, 9090, 8081, 81, 7777}. Stream compose: all resolvers, the client decision on the real "
                "selectAuthnPolicies view for a random client namespace / imported namespaces (with its version and config "
                "dependencies), spec edits. Stream ambient: attached ztunnel policies, direct calls of the hooked conversion functions "
                "on arbitrary arguments, and (one case in ~150) a pod / WorkloadEntry / inline ServiceEntry endpoint on the real ambient "
                "index over a fake kube client. Stream inbound: the real virtualInbound listener of a sidecar with services on 80 HTTP / "
                "8080 TCP / 9090 auto / service port 81 -> target port 8081 (other protocols, fewer services, services on reserved or "
                "privileged target ports; REDIRECT / TPROXY / NONE interception, unprivileged proxy; HBONE), one case in three with a "
                "Sidecar whose ingress listeners (some with user TLS, some bound to their port, with or without listener merge) replace "
                "the service chains; and the composed client decision end to end on real CDS / EDS / LDS for 16 kinds of service and "
                "client (ServiceEntry or Kubernetes Service, targetPort differing from port, gateway client, auto-mTLS off, no sidecar, "
                "mesh-external, passthrough, DestinationRule modes and subsets, a client that may send HBONE as in an ambient-enabled mesh, two "
                "endpoints with different labels in one cluster). HISTORY: one inbound case in eight keeps ONE FakeDiscoveryServer, "
                "client and server proxy for the whole case (op hc) and applies 2-4 PeerAuthentication updates / creates / deletes through "
                "its config store (real config handler -> ConfigUpdate -> debounce -> updateContext, then computeProxyState and "
                "ProxyNeedsPush per proxy), re-reading CDS / EDS / LDS after each; the ambient index of an aw case lives for the rest of "
                "the case too, edits go through the kube client and the same workload is read again. Plus the 16 (mode, protocol) rows "
                "of the real filter-chain table, proved equal to the model (4 of them for mode UNKNOWN, which no resolver returns: the "
                "chains oracle judges the other 12); distinct = hash of (ops, implementation outputs); non-trivial = at least one policy")
    ctx.assumptions = [
        "UniqueKeys: (namespace, name) identifies a PeerAuthentication (true for Kubernetes resources)",
        "AllPortsNodup: the port-level settings of a policy are a map (true for the API type: portLevelMtls is a map)",
        "NoPortZero: no port-level entry for port 0 (inbound theorems; validation rejects port 0)",
        "w.svcNs = []: no waypoint service namespaces in the theorems about resolvers (the waypoint lookup is tied by T-diff only)",
        "client-side theorems: the endpoint's namespace is one the client's sidecar scope keeps (client namespace, root namespace, "
        "namespaces of imported services) - an endpoint the client can reach is in an imported service's namespace",
        "version theorems: the 64-bit hash of the version is collision-free (the model keeps the hashed list) and RvDeterminesContent "
        "(same namespace/name/resourceVersion means same object: Kubernetes bumps the resourceVersion on every write)",
        "inbound theorems are claims for destination ports d > 0, d != 15006 (virtualInbound's own port: the blackhole chain, which "
        "the model leaves out) and, for the mode clauses, ports whose chain config has no user TLS (NoUserTLSFor; user TLS is "
        "covered by inbound_user_tls_only_under_disable); DeclaredHaveConfigs holds for what the code builds (declared_have_configs) "
        "except for a service on a reserved target port (15001/15006/15021/15090), which CanBindToPort skips",
        "delivery: a connection to a Sidecar ingress port with captureMode NONE reaches the listener bound to that port, not "
        "virtualInbound (listenerFor); redirected traffic reaches virtualInbound with its original destination port",
        "Envoy selects filter chains as documented (destination port, then transport protocol, then application protocols; "
        "first transport_socket_match wins); the ALPN / TLS behaviour of the ten client kinds is written from documentation; ztunnel "
        "evaluates Authorization policies as documented (groups OR, rules AND, matches OR, DENY wins): Lean / Go definitions, "
        "no data-plane binary is run",
        "history: what is kept across an edit is one client and one server proxy of one FakeDiscoveryServer and one ambient index; "
        "edits are PeerAuthentication create / update / delete only (the refresh after Service, Sidecar, DestinationRule or mesh-config "
        "changes and the xDS connection that carries the push are other properties' subject); every other op builds its world fresh",
        "cl / hc run with the ambient feature flags off except kind hbone (EnableHBONESend on, endpoint without tunnel support); a cluster "
        "has one endpoint except kind two (two endpoints with different labels); HBONE-capable endpoints (tunnel metadata) are not driven",
        "inbound_listener_enforces_per_client / matches_nodup additionally assume TargetsDistinct, TargetsPos, TargetsDeclared for the chain "
        "configs (proved for what chainConfigs builds: chainConfigs_targets_distinct / _declared; TargetsPos = no service on port 0)",
        "the fake kube client, the informers and krt behave like the real ones for create / update / delete of the objects used; op aw "
        "waits for a stable answer (after an edit at most 3 s for one that enforces the specification) - a slower index would be "
        "reported as stale",
        "inbound theorems make no claim for the proxy's own ports 15001 / 15006 / 15008 / 15020 / 15021 / 15090 (proxyOwnPorts): "
        "connections to them never reach virtualInbound",
        "tls_inspector_iff is a statement about the specification of the TLS inspector (enabled iff a chain considered for the port "
        "matches transport protocol tls); buildTLSInspector itself is tied to it by the differential stream only",
    ]
    ctx.trusted.append("pilot/pkg/model/zz_verif_c10.go, pilot/pkg/xds/endpoints/zz_verif_c10.go, pilot/pkg/networking/core/"
                       "zz_verif_c10.go, pilot/pkg/serviceregistry/ambient/zz_verif_c10.go (verif-tagged accessors)")
    # T-gen first: the real filter-chain table of this tree becomes a Lean file (stale file deleted first)
    if os.path.exists(GENERATED):
        os.remove(GENERATED)
    if not ctx.go_build():
        return
    os.makedirs(os.path.dirname(GENERATED), exist_ok=True)
    rc, log = ctx.harness("table", "chains", GENERATED)
    if rc != 0 or not os.path.exists(GENERATED):
        ctx.tie_broken("harness-table:chains", "the harness could not evaluate getFilterChainMatchOptions over its domain:\n" + log)
        return
    ctx.extra["generated_tables"] = {"domain": "MutualTLSMode (4) x ListenerProtocol (4) = 16 rows of the inbound filter-chain table",
                      "rows": 16, "tie": "IstioModel.C10.chains_model_eq_impl (decide)"}
    proved = ctx.lean_prove(THEOREMS)
    # the filter-chain clauses evaluated directly on the real table, independent of the model
    cv = os.path.join(ctx.work, "chains.verdict")
    rc, log = ctx.harness("oracle", "chains", os.devnull, cv)
    if rc != 0 or not os.path.exists(cv):
        ctx.tie_broken("oracle-run:chains", log)
    else:
        rows = ctx.read_lines(cv)
        ctx.count("oracle.chains.rows", len(rows))
        for v in rows:
            ctx.note_case("chains " + v, True)
            if v.startswith("FAIL"):
                f = v.split()
                ctx.violation("chains:%s:%s" % (f[1], f[2]),
                              "the generated inbound filter chains do not enforce the mode (%s)" % " ".join(f[2:]),
                              {"stream": "chains", "row": " ".join(f[3:]), "oracle_verdict": v,
                               "generated_table": open(GENERATED).read()}, True)
    if not ctx.build_drv():
        return
    # quick tier sized to stay within budget on a loaded box (the e2e ops of `inbound` cost 25-40 ms each)
    sizes = {"compose": ctx.n(12000, 300000), "ambient": ctx.n(12000, 300000), "inbound": ctx.n(350, 8000)}
    for stream in STREAMS:
        ctx.diff_stream(stream, sizes[stream], oracle=oracle, nontrivial=nontrivial)
        branch_counters(ctx, stream)
    # second line: the oracle on every corpus and generated case, independent of the model
    for stream in STREAMS:
        files = []
        cdir = os.path.join(os.path.dirname(os.path.dirname(os.path.abspath(__file__))), "harness", "corpus", ctx.pid)
        if os.path.isdir(cdir):
            files += [os.path.join(cdir, f) for f in sorted(os.listdir(cdir)) if f.startswith(stream + ".") and f.endswith(".ops")]
        g = os.path.join(ctx.work, "%s.gen.ops" % stream)
        if os.path.exists(g):
            files.append(g)
        for ops in files:
            tmp = os.path.join(ctx.work, "oracle." + os.path.basename(ops))
            with open(ops) as fi, open(tmp, "w") as fo:
                fo.write(fi.read())
            bad, nv = run_oracle(ctx, stream, tmp, count=True)
            if bad is None:
                ctx.tie_broken("oracle-run:%s" % stream, "the oracle sub-command failed on %s" % ops)
                continue
            ctx.count("oracle.%s.cases" % stream, nv)
            if bad:
                report(ctx, stream, tmp, bad)


def replay(ctx, path):
    import json
    obj = json.load(open(path))
    rep = obj.get("replay", {})
    ops = rep.get("ops") or (rep.get("extra") or {}).get("ops")
    stream = rep.get("stream") or (rep.get("extra") or {}).get("stream") or "compose"
    if not ops:
        ctx.log("replay file has no ops; re-running the full check")
        return run(ctx)
    if not (ctx.build_drv() and ctx.go_build()):
        return
    p = os.path.join(ctx.work, "replay.ops")
    with open(p, "w") as f:
        f.write("\n".join(ops) + "\n")
    ok, impl, model, log = ctx.run_pair(stream, p, "replay")
    m = None
    if ok:
        _, _, m = ctx.compare(stream, p, impl, model)
    found = oracle(ctx, stream, ops, m.to_json() if m else None)
    if found:
        ctx.violation(found[0], found[1], found[2], True)
    elif m is not None:
        ctx.tie_broken("correspondence:%s" % stream, "replayed case still differs", m.to_json())
    elif not ok:
        ctx.tie_broken("stream-run:%s" % stream, log)
    if ok:
        ctx.account(stream, p, impl)


MANIFEST = {
    "level_text": ("Lean 4 proof: the PeerAuthentication precedence code (sort by creation time, namespace/mesh singleton, selector "
                   "matching, ComposePeerAuthentication, GetMutualTLSModeForPort, GetNamespaceMutualTLSMode, FilterPeerAuthenticationNamespaces, "
                   "checkMtlsEnabled), the inbound filter-chain table and the filter chains of the virtualInbound listener (service and "
                   "Sidecar-ingress chain configs, target ports, passthrough), and the ambient conversion (fetchPeerAuthentications, "
                   "convertedSelectorPeerAuthentications, convertPeerAuthentication, PeerAuthDerivedPolicies) are modelled exactly. "
                   "Proved for all policy lists, workloads and ports: compose_eq_spec (resolver = declarative effectiveMode, ties by the "
                   "real comparator), namespace_mode_agrees, client_agrees(_scoped: on the per-proxy filtered view), version_tracks_spec and filtered_version_tracks_spec (the version of the "
                   "per-proxy view, the one production reads, determines every client-side decision; THAT the EDS / CDS cache keys contain it is "
                   "property C06's subject, not checked here), dependencies_cover_spec (every policy the decision reads is a config dependency "
                   "of the client proxy), order "
                   "independence; the COMPOSED client decision (cluster TLS socket and endpoint label) is proved sound and exact unless the "
                   "namespace-level mode is DISABLE - the full clause is false on the code (theorem client_agrees_full_witness, known finding "
                   "F13 reproduced on real CDS/EDS/LDS); "
                   "inbound_enforces / inbound_listener_enforces (the filter chains Envoy selects for any destination port admit plaintext "
                   "iff not STRICT, terminate mutual TLS iff not DISABLE, all terminate mutual TLS under STRICT; one-way TLS only for user "
                   "TLS on a Sidecar ingress listener under DISABLE; custom bind listeners, listener merge, interception NONE (inbound_none_enforces), HBONE terminate listener always mTLS), "
                   "ambient_strict_exact / ambient_workload_strict_exact (pods, WorkloadEntries, inline ServiceEntry endpoints; ztunnel rejects an unauthenticated peer iff the "
                   "effective mode is STRICT, for every krt enumeration order), no_dangling, ambient_never_rejects_authenticated. The "
                   "enforcement claims are about filter-chain matches, transport sockets and ztunnel policies as modelled from "
                   "documentation; the TLS inspector is specified (enabled iff a chain considered for the port matches tls), buildTLSInspector is tied to "
                   "that by T-diff only; the HTTP inspector and TLS context contents are not modelled. Tied to /repo on every "
                   "run by three line-by-line differentials against the real functions (incl. the real LDS/CDS/EDS generators with the transport "
                   "socket Envoy SELECTS for the endpoint, selectAuthnPolicies, the real ambient index on a fake kube client, buildWorkloadPolicies "
                   "and PolicyCollections) and one regenerated table."),
    "level_note": ("Trusted: Lean kernel + {propext, Classical.choice, Quot.sound}; the hand-written model (tied by differential testing: "
                   "~24400 cases quick, ~610000 thorough, plus a 16-row generated table proved equal by decide); four verif-tagged "
                   "accessor files zz_verif_c10.go; Envoy filter-chain selection and ztunnel DENY-policy semantics are Lean definitions "
                   "written from documentation (no data-plane binary). Hypotheses: (namespace,name) unique, port-level settings are a map, "
                   "no port-level entry for port 0, endpoint namespace kept by the client's sidecar scope, no waypoint service namespaces "
                   "in the theorems (T-diff only), destination port not 15006, RvDeterminesContent and a collision-free hash for the version "
                   "theorems; full list in the evidence file. Not modelled: buildTLSInspector's predicate construction and the HTTP inspector, TLS "
                   "context contents beyond require_client_certificate + validation context present, the blackhole chain, dual-stack extra "
                   "addresses, inbound listeners of gateways and waypoints, the proxyless gRPC server's inbound filter chains (grpcgen/lds.go "
                   "buildInboundFilterChains, a fourth deriver of the mode from the same MTLSSettings: not anchored), MUTUAL user TLS. Seven defects of the pinned tree (F2, F3, F10, F11, F12, F14, F15) were repaired by fix: commits; their witnesses stay in "
                   "the corpus and as ..._witness_unfixed theorems."),
    "technique": ("Lean 4 theorems over an exact model (precedence resolvers, filter-chain table and listener, ambient conversion) + "
                  "differential correspondence with the real Go functions + kernel-checked generated table + independent property oracle"),
    "design_ref": "DESIGN.md section 5 C10",
}
