"""C06 - The xDS cache is invisible: never stale, never shared across differing proxies.

Proof: lean/IstioModel/C06/Theorems.lean over the exact model lean/IstioModel/C06/Model.lean of
pilot/pkg/model/typed_xds_cache.go (lruCache on simplelru) and xds_cache.go (XdsCacheImpl).
Tie: T-diff stream `cache` - random op sequences on the REAL cache through model.XdsCache, observed
through the verif hook pilot/pkg/model/zz_verif_c06.go, compared line by line with the Lean model;
stream `keys` - key completeness of the real key functions, validated (not proved);
stream `writers` - coherence of the real cache writers (processRequest, pushConnection, debug config dump) on
sequential schedules, validated (not proved).
On break: harness `oracle` evaluates the property itself on the real cache (ground truth versioned by the
harness) and enumerates all interleavings of 2 writers x 1 invalidator (x flusher).
"""
import hashlib
import os
import re
import shutil
import types

import verif

THEOREMS = ["IstioModel.C06.Theorems"]


def _run_pair(self, stream, ops_path, tag):
    """Like Ctx.run_pair, but the Lean driver reads the ops file *resolved* by the harness: Clear ranges
    over Go maps, and the order in which it queues the removed entries for index cleanup is random in the
    real code; the harness records the observed order on the `clear` line and the model takes it as input
    (it is a function of it, and every theorem holds for every order)."""
    impl = os.path.join(self.work, "%s.%s.impl" % (stream, tag))
    model = os.path.join(self.work, "%s.%s.model" % (stream, tag))
    resolved = ops_path + ".resolved"
    for p in (impl, model, resolved):
        if os.path.exists(p):
            os.remove(p)
    rc, out = self.harness("exec", stream, ops_path, impl)
    if rc != 0:
        return False, impl, model, "harness exec rc=%d: %s" % (rc, out[-3000:])
    src = resolved if os.path.exists(resolved) else ops_path
    rc, err = self.drv(stream, src, model)
    if rc != 0:
        return False, impl, model, "lean driver rc=%d: %s" % (rc, err[-3000:])
    return True, impl, model, ""


def _case_of(lines, i):
    starts = [k for k, l in enumerate(lines) if l.startswith("case")]
    s = starts[i]
    e = starts[i + 1] if i + 1 < len(starts) else len(lines)
    return lines[s:e]


def _fingerprint(ostream, verdict):
    """Stable name of the failing input class: stream, clause, and for the real-generator streams the proxy attribute
    and the xDS type concerned (so that different key/invalidation defects are different findings)."""
    f = verdict.split()
    clause = f[1] if len(f) > 1 else "?"
    if ostream == "writers" and clause.startswith("stale-after-"):
        clause = "stale"   # which op ran last is not part of the input class
    fp = "%s:%s" % (ostream, clause)
    d = [t for t in f if t.startswith("diff:")]
    if ostream in ("keys", "writers") and d:
        body = d[0][5:]                        # after "diff:"
        attr = [t[5:] for t in f if t.startswith("attr=")]
        m = re.match(r"^(\d+):(\d+):([^:]+):(.*)$", body)   # seq: <round>:<pos>:<attr>:<resource>
        if m and not attr:
            attr, body = [m.group(3)], m.group(4)
        if attr:
            fp += ":" + attr[0]
        fp += ":" + body.split("/")[0]         # xDS type (cds/eds/rds/sds)
    return fp, clause


def oracle(ctx, stream, case_lines, rep):
    """Property-level search on the implementation: the shrunk case, everything generated, then the
    exhaustive interleaving enumeration. Every distinct failing input class becomes its own violation."""
    cands = []
    if case_lines and len(case_lines) > 1:
        p = os.path.join(ctx.work, "%s.oracle.ops" % stream)
        with open(p, "w") as f:
            f.write("\n".join(case_lines) + "\n")
        cands.append((stream, p))
    g = os.path.join(ctx.work, "%s.gen.ops" % stream)
    if os.path.exists(g):
        cands.append((stream, g))
    if stream == "cache":
        il = os.path.join(ctx.work, "interleave.gen.ops")
        if not os.path.exists(il):
            ctx.harness("gen", "interleave", ctx.seed, ctx.n(8, 40), il)
        if os.path.exists(il):
            cands.append(("interleave", il))
    first = None
    seen = set()
    for ostream, ops in cands:
        out = ops + ".verdict"
        if os.path.exists(out):
            os.remove(out)
        rc, log = ctx.harness("oracle", ostream, ops, out)
        if rc != 0 or not os.path.exists(out):
            continue
        verdicts = ctx.read_lines(out)
        lines = ctx.read_lines(ops)
        for i, v in enumerate(verdicts):
            if v.startswith("FAIL"):
                fp, clause = _fingerprint(ostream, v)
                if fp in seen or len(seen) >= 8:
                    continue
                seen.add(fp)
                found = (fp, "xDS cache violates clause '%s' on the real code (%s): %s" % (clause, ostream, " ".join(v.split()[2:])[:200]),
                         {"stream": ostream, "ops": _case_of(lines, i), "oracle_verdict": v, "correspondence": rep})
                if first is None:
                    first = found
                else:
                    ctx.violation(found[0], found[1], found[2], True)
    return first


def _build_stamp(repo):
    """sha1 of everything the harness binary depends on; None when it cannot be determined (then always rebuild)."""
    h = hashlib.sha1()
    try:
        for cmd in (["git", "-C", repo, "rev-parse", "HEAD"], ["git", "-C", repo, "diff", "HEAD"],
                    ["git", "-C", repo, "ls-files", "--others", "--exclude-standard"]):
            rc, out, dt = verif.sh(cmd, timeout=120)
            if rc != 0:
                return None
            h.update(out.encode())
            if cmd[-1] == "--exclude-standard":
                for rel in out.split("\n"):
                    p = os.path.join(repo, rel)
                    if rel.endswith(".go") and os.path.isfile(p):
                        h.update(open(p, "rb").read())
        d = os.path.join(verif.HARNESS, "c06")
        for root in (d, os.path.join(verif.HARNESS, "internal")):
            for dp, dn, fn in sorted(os.walk(root)):
                for f in sorted(fn):
                    if f.endswith(".go"):
                        h.update(f.encode())
                        h.update(open(os.path.join(dp, f), "rb").read())
        for f in ("go.mod",):
            h.update(open(os.path.join(verif.HARNESS, f), "rb").read())
        h.update(open(os.path.join(repo, "go.sum"), "rb").read())
    except OSError:
        return None
    return h.hexdigest()


def build_harness(ctx):
    """ONE build in the normal case: the harness with -tags "verif c06ext" (needs the newer entry points of
    pilot/pkg/xds/zz_verif_c06.go: delta request/push, typed config dump). Only if that fails the plain harness
    (hooks of the first C06 hook commits) is built and the broken tie is reported."""
    pkg = ctx.lc
    os.makedirs(verif.BIN, exist_ok=True)
    extra = []
    if os.path.realpath(verif.REPO) == "/repo":
        out = os.path.join(verif.BIN, pkg + ".ext")
        try:
            shutil.copyfile(os.path.join(verif.REPO, "go.sum"), os.path.join(verif.HARNESS, "go.sum"))
        except OSError:
            pass
    else:
        out = os.path.join(verif.BIN, pkg + ".ext.alt-" + hashlib.sha1(verif.REPO.encode()).hexdigest()[:8])
        alt = os.path.join(ctx.work, "alt.go.mod")
        with open(os.path.join(verif.HARNESS, "go.mod")) as f:
            txt = f.read().replace("=> /repo", "=> " + os.path.realpath(verif.REPO))
        with open(alt, "w") as f:
            f.write(txt)
        shutil.copyfile(os.path.join(verif.REPO, "go.sum"), os.path.join(ctx.work, "alt.go.sum"))
        extra = ["-modfile=" + alt]
    # never run a stale binary - but do not rebuild an up-to-date one either (the shared Go build cache is trimmed by
    # concurrent checks; a cold build takes minutes on a loaded machine): the binary carries a stamp of everything it was
    # built from (HEAD, working-tree diff and untracked files of the repo, the harness sources, go.mod/go.sum)
    stamp = _build_stamp(os.path.realpath(verif.REPO))
    if stamp and os.path.exists(out) and os.path.exists(out + ".stamp") and open(out + ".stamp").read() == stamp:
        ctx.log("harness binary is up to date with %s and harness/c06 (stamp %s): not rebuilt" % (verif.REPO, stamp[:12]))
        ctx.bin_path = out
        ctx.harness_ok = True
        return True
    for f in (out, out + ".stamp"):
        if os.path.exists(f):
            os.remove(f)
    cmd = ["go", "build", "-tags", "verif c06ext"] + extra + ["-o", out, "./" + pkg]
    rc, log, dt = verif.sh(cmd, cwd=verif.HARNESS, env=verif.go_env(), timeout=1500)
    if rc != 0 and ".cache/go-build" in log and "no such file or directory" in log:
        rc, log, dt = verif.sh(cmd, cwd=verif.HARNESS, env=verif.go_env(), timeout=1500)  # build cache trimmed meanwhile
    ctx.log("go build -tags 'verif c06ext' ./c06 rc=%d (%.1fs)" % (rc, dt))
    if rc == 0:
        if stamp:
            with open(out + ".stamp", "w") as f:
                f.write(stamp)
        ctx.bin_path = out
        ctx.harness_ok = True
        return True
    if not ctx.go_build():
        return False
    ctx.tie_broken("harness-build:c06-ext-hooks",
                   "the newer verif hooks (VerifC06NewDeltaConnection, VerifC06ProcessDeltaRequest, VerifC06PushConnectionDelta, "
                   "VerifC06ConfigDumpTypes in pilot/pkg/xds/zz_verif_c06.go) do not build against this tree; delta and typed "
                   "config-dump writers were not exercised:\n" + log)
    return True


def race(ctx, secs):
    """Stress run (goroutine races cannot be scheduled deterministically): the REAL ProxyUpdate in 8 goroutines races
    with the REAL config-change pipeline (store update -> debounce -> Push: initPushContext, StartPush) on a
    FakeDiscoveryServer with 8 connected ADS clients. Two passive probes (a wrapper around s.Cache that timestamps
    Clear/ClearAll, a wrapper around the CDS generator that records the request it is given and compares its answer
    with an uncached twin) count (a) push requests whose context was already replaced by a Clear that ended before
    their Start, (b) stale entries stored in the real CDS cache by such requests, (c) CDS answers served from the cache
    that were derived from an older DestinationRule than the request's own context holds. All three must be 0."""
    rc, out = ctx.harness("race", "f8", secs, 8, timeout=900)
    if rc != 0:  # wall-clock deadlines of the fake server on a loaded machine: one more try
        rc, out = ctx.harness("race", "f8", secs, 8, timeout=900)
    m = re.search(r"proxyupdate_calls=(\d+) clears=(\d+) .*incoherent_pairs=(\d+) \(from ProxyUpdate only: (\d+)\)", out)
    st = re.search(r"token == its Start\): (\d+)", out)
    sv = re.search(r"request's own context holds: (\d+)", out)
    if rc != 0 or not (m and st and sv):
        ctx.tie_broken("race-run:f8", out)
        return
    calls, clears, inc, stored, served = int(m.group(1)), int(m.group(2)), int(m.group(3)), int(st.group(1)), int(sv.group(1))
    ctx.count("race.f8.proxyupdate_calls", calls)
    ctx.count("race.f8.pushes", clears)
    ctx.count("race.f8.incoherent_pairs", inc)
    ctx.count("race.f8.stale_entries_stored", stored)
    ctx.count("race.f8.stale_answers_served", served)
    me = re.search(r"endpoint_index_ops=(\d+) concurrent_eds_generations=(\d+)", out)
    if me:
        ctx.count("race.endpoint_index_ops", int(me.group(1)))
        ctx.count("race.concurrent_eds_generations", int(me.group(2)))
    ctx.note_case("race f8 %d %d" % (calls // 100000, clears // 1000), True)
    if inc or stored or served:
        ctx.violation("race:f8-incoherent-writer",
                      "a real cache writer paired an already replaced push context with a later start time under concurrency "
                      "(%d requests, %d stale entries stored, %d stale CDS answers served)" % (inc, stored, served),
                      {"stream": "race", "ops": ["race f8 %d 8" % secs], "output": out[-3000:]}, True)


def run(ctx):
    ctx.run_pair = types.MethodType(_run_pair, ctx)
    ctx.rule = ("cache: cases = random op sequences (5-300 ops: add/get/clear/clearall/flush/maxsize + malformed) on one XdsCacheImpl, "
                "LRU size 1-5 (sometimes unbounded), 2-7 keys, 4 typed caches + unknown types, Start tokens equal/newer/older than the "
                "last Clear, zero Start and nil request, dependencies over 9 configs incl. PeerAuthentication; "
                "keys: one case = one mesh variant x base proxy x 21 single-attribute proxy pairs; writers: one case = 6-30 "
                "request/push/dump/change/check ops on 1-3 connections of a FakeDiscoveryServer; distinct = hash of (ops, implementation outputs); "
                "non-trivial = at least one op")
    ctx.assumptions = [
        "writers are coherent (theorem never_stale): a writer's Start token is older than every already executed invalidation of a "
        "dependency that its data does not reflect (StartPush stamps Start after the snapshot is published; processRequest and the "
        "debug config dump reuse the (LastPushContext, LastPushTime) pair; ProxyUpdate/AdsPushAll read the pair under "
        "pushContextMu) - validated on the real code by stream writers (sequential) and the race stress (statistical), not proved",
        "KeyDetermines + in-sync invalidation (hypothesis of cache_invisible): if the snapshot an entry was generated from and a "
        "reader's snapshot agree on the entry's DependentConfigs() and the two keys (each computed on its own snapshot) are equal, "
        "generation for the reader yields the stored value - i.e. the key distinguishes proxies (key completeness, Cacheable()) AND "
        "carries a version/the names of every config generation reads beyond DependentConfigs() (peerAuthVersion, applicable "
        "DR/VS/EF names: such entries stay stored but unreachable; stored entries are NOT claimed fresh); and every accepted change "
        "of a declared dependency reaches Clear/ClearAll (dropCacheForRequest incl. Forced => ClearAll, EndpointIndex."
        "clearCacheForService / deleteServiceInner / GetOrCreateEndpointShard / DeleteShard, PeerAuthentication => EDS ClearAll). "
        "Validated, not proved, by streams keys and writers on the real generators",
        "Secrets and ConfigMaps are read live by SecretGen while the SDS cache is cleared only by the debounced push of the "
        "credentials controller's ConfigUpdate: inside that debounce window the cache serves the old certificate although a fresh "
        "generation yields the new one (the harness waits the window out before it checks)",
        "formalisation: the declared dependencies may depend on the snapshot (depsOf r S); readers that key on an older snapshot "
        "than the current one are not covered by cache_invisible",
        "the wall clock is strictly increasing between a writer's Start and any later Clear (Add rejects only token < cache token)",
        "ConfigKey.HashCode is injective on the configs in play; UnixNano of Start is non-negative",
        "KeyComplete (the cache key determines every input generation reads) is validated on the real key functions by the "
        "stream `keys`, not proved",
    ]
    ctx.trusted.append("pilot/pkg/model/zz_verif_c06.go (verif-tagged read-only snapshot of the typed caches + synchronous Flush)")
    ctx.trusted.append("pilot/pkg/xds/zz_verif_c06.go (verif-tagged entry points: processRequest, pushConnection, connectionConfigDump, bare Connection)")
    ctx.trusted.append("logical-to-wall-clock mapping of the harness (harness/c06/clock.go): only the order of tokens is observable by the cache")
    proved = ctx.lean_prove(THEOREMS)
    if not ctx.build_drv():
        return
    if not build_harness(ctx):
        return
    ctx.diff_stream("cache", ctx.n(600, 20000), oracle=oracle)
    st = os.path.join(ctx.work, "cache.run.impl.stats")
    if os.path.exists(st):
        d = dict(l.split() for l in ctx.read_lines(st) if len(l.split()) == 2)
        unresolved = int(d.get("timing_unresolved", 0))
        ctx.count("cache.timing_unresolved_cases", unresolved)
        ctx.count("cache.timing_retries", int(d.get("timing_retries", 0)))
        if unresolved * 20 > max(1, ctx.streams.get("cache", {}).get("cases", 0)):
            ctx.tie_broken("cache-timing", "%d cases could not be mapped to the wall clock (machine too loaded); "
                           "the cache correspondence was not established for them" % unresolved)
    # second line, independent of the model: the property oracle on every generated case ...
    g = os.path.join(ctx.work, "cache.gen.ops")
    if os.path.exists(g):
        out = g + ".verdict"
        rc, log = ctx.harness("oracle", "cache", g, out)
        if rc == 0 and os.path.exists(out):
            vs = ctx.read_lines(out)
            ctx.count("oracle.cache.cases", len(vs))
            ctx.count("oracle.cache.timing_unresolved", sum(1 for v in vs if "timing-unresolved" in v))
            if any(v.startswith("FAIL") for v in vs):
                found = oracle(ctx, "cache", None, None)
                if found:
                    ctx.violation(found[0], found[1], found[2], True)
        else:
            ctx.tie_broken("oracle-run:cache", log)
    # stream keys: KeyComplete validated on the real generators (warm shared cache vs. from scratch)
    ctx.diff_stream("keys", ctx.n(30, 400), oracle=oracle)
    st = os.path.join(ctx.work, "keys.run.impl.stats")
    if os.path.exists(st):
        for l in ctx.read_lines(st):
            f = l.split()
            if len(f) == 3:
                if f[0].startswith("cache-entries") or f[0].startswith("served-from") or f[0].startswith("rds-"):
                    ctx.count("keys." + f[0], int(f[1]))
                else:
                    ctx.count("keys.pairs.%s" % f[0], int(f[1]))
                    ctx.count("keys.pairs_where_generation_differs.%s" % f[0], int(f[2]))
    # stream writers: the coherent-writer hypothesis validated on the real request / push / debug-dump code paths
    ctx.diff_stream("writers", ctx.n(50, 1000), oracle=oracle)
    # ... and the exhaustive interleaving enumeration on the real cache
    il = os.path.join(ctx.work, "interleave.gen.ops")
    rc, log = ctx.harness("gen", "interleave", ctx.seed, ctx.n(8, 40), il)
    out = il + ".verdict"
    rc, log = ctx.harness("oracle", "interleave", il, out)
    if rc == 0 and os.path.exists(out):
        vs = ctx.read_lines(out)
        lines = ctx.read_lines(il)
        ctx.count("oracle.interleave.scenarios", len(vs))
        ctx.count("oracle.interleave.schedules", sum(int(v.split("=")[1]) for v in vs if v.startswith("OK schedules=")))
        for i, v in enumerate(vs):
            ctx.note_case("interleave\n" + lines[i].split(" ", 2)[-1] + "\n" + v, True)
            if v.startswith("FAIL"):
                clause = v.split()[1]
                ctx.violation("interleave:%s" % clause,
                              "xDS cache hands out a stale resource under an interleaving of coherent writers and an invalidator",
                              {"stream": "interleave", "ops": [lines[i]], "oracle_verdict": v}, True)
    else:
        ctx.tie_broken("oracle-run:interleave", log)
    # goroutine races between the real writers and the real invalidation/publication (F8)
    race(ctx, ctx.n(5, 45))
    if not proved and not ctx.violations:
        pass  # finish() reports the broken proof; the searches above found no failing input


def replay(ctx, path):
    import json
    ctx.run_pair = types.MethodType(_run_pair, ctx)
    obj = json.load(open(path))
    rep = obj.get("replay", {})
    ops = rep.get("ops") or (rep.get("extra") or {}).get("ops")
    stream = rep.get("stream") or (rep.get("extra") or {}).get("stream") or "cache"
    if not ops:
        ctx.log("replay file has no ops; re-running the full check")
        return run(ctx)
    if not (ctx.build_drv() and build_harness(ctx)):
        return
    p = os.path.join(ctx.work, "replay.ops")
    with open(p, "w") as f:
        f.write("\n".join(ops) + "\n")
    if stream == "race":
        return race(ctx, 30)
    if stream == "interleave":
        out = p + ".verdict"
        ctx.harness("oracle", "interleave", p, out)
        for v in ctx.read_lines(out):
            ctx.log("replay verdict:", v)
            if v.startswith("FAIL"):
                ctx.violation("interleave:%s" % v.split()[1], "replayed interleaving still fails",
                              {"stream": "interleave", "ops": ops, "oracle_verdict": v}, True)
        return
    ok, impl, model, log = ctx.run_pair(stream, p, "replay")
    m = ctx.compare(stream, p, impl, model)[2] if ok else None
    found = oracle(ctx, stream, ops, m.to_json() if m else None)
    if found:
        ctx.violation(found[0], found[1], found[2], True)
    elif m is not None:
        ctx.tie_broken("correspondence:%s" % stream, "replayed case still differs", m.to_json())
    if ok:
        ctx.account(stream, p, impl)


MANIFEST = {
    "level_text": ("Lean 4 proof over an exact model of the typed xDS cache (lruCache on simplelru: Add with both token checks, Get, "
                   "Clear, ClearAll, Flush, evict queue, reverse index; XdsCacheImpl dispatch incl. PeerAuthentication => EDS ClearAll): "
                   "for every sequence of operations by any number of writers the reverse index is complete and leak-free, Clear is "
                   "effective, stale writers are rejected, no stored entry is older than the latest invalidation of one of its "
                   "dependencies, and under the stated writer discipline (Coherent) and the key hypothesis KeyDetermines (equal keys + agreement on "
                   "the entry's snapshot-dependent DependentConfigs => same generation) Get with the key computed on the current "
                   "snapshot returns what a fresh generation returns for the asking proxy (never_stale, cache_invisible; stored entries "
                   "are not claimed fresh, readers keying on an older snapshot are not covered); witnesses show both hypotheses are "
                   "necessary. The model is tied to /repo on every run by a line-by-line differential on the real cache; the two "
                   "hypotheses are validated (not proved) on the real key functions and the real cache writers."),
    "level_note": ("Trusted: Lean kernel + {propext, Classical.choice, Quot.sound}; the hand-written model (tied by differential testing "
                   "through model.XdsCache + the read-only hook pilot/pkg/model/zz_verif_c06.go); the harness's order-preserving mapping "
                   "of logical times to the wall clock read by Clear. Validated only, not proved: KeyComplete for EndpointBuilder / "
                   "clusterCache / route Cache / SecretResource keys (stream keys: real CDS/EDS/RDS/SDS generators, warm shared cache vs "
                   "from scratch, single-attribute proxy pairs on generated meshes) and writer coherence of processRequest / "
                   "pushConnection / debug config dump (stream writers, sequential schedules only, entry points through "
                   "pilot/pkg/xds/zz_verif_c06.go). Goroutine races between the real writers and initPushContext are only explored by a stress "
                   "run with passive probes (statistical). Assumed: strictly increasing wall clock, ConfigKey hash injective. KeyDetermines (equal keys + agreement on DependentConfigs => same generation: key completeness and key versioning; "
                   "stored entries are not claimed fresh) and in-sync invalidation are hypotheses validated by streams keys/writers only. Eight "
                   "defects found by these streams were fixed in /repo (SDS key vs mesh-default private key provider; debug config "
                   "dump pairing LastPushContext with time.Now(); F8: ProxyUpdate/AdsPushAll pairing the global context with a clock "
                   "read unsynchronised with cache invalidation + publication; EDS key and RDS key without the proxy's IP family; RDS key without the catch-all cluster; CDS key without the credential-socket flags; RDS key without proxyHeaders)."),
    "technique": "Lean 4 theorems (induction over arbitrary op sequences) over an exact model of the cache state machine + differential correspondence with the real Go cache + property oracle with exhaustive small-interleaving enumeration + differential validation of the proof's hypotheses on the real generators",
    "design_ref": "DESIGN.md section 5 C06",
}
