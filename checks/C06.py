"""C06 - The xDS cache is invisible: never stale, never shared across differing proxies.

Proof: lean/IstioModel/C06/Theorems.lean over the exact model lean/IstioModel/C06/Model.lean of
pilot/pkg/model/typed_xds_cache.go (lruCache on simplelru) and xds_cache.go (XdsCacheImpl).
Tie: T-diff stream `cache` - random op sequences on the REAL cache through model.XdsCache, observed
through the verif hook pilot/pkg/model/zz_verif_c06.go, compared line by line with the Lean model;
stream `keys` - key completeness of the real key functions, validated (not proved);
stream `writers` - coherence of the real cache writers (initConnection, processRequest, processDeltaRequest incl.
forceEDSPush, pushConnection[Delta], both debug config dumps) and of the real invalidation paths (config handlers ->
ConfigUpdate -> debounce -> Push -> dropCacheForRequest, EDSUpdate / EDSCacheUpdate / SvcUpdate / RemoveShard /
PruneShard, ConfigUpdate(kind Address) => ClearAll) on sequential schedules, validated (not proved).
On break: harness `oracle` evaluates the property itself on the real cache (ground truth versioned by the
harness) and enumerates all interleavings of 2 writers x 1 invalidator (x flusher).
"""
import hashlib
import os
import re
import shutil
import time
import types

import verif

THEOREMS = ["IstioModel.C06.Theorems"]


def _run_pair(self, stream, ops_path, tag):
    """Like Ctx.run_pair, but the Lean driver reads the ops file *resolved* by the harness: Clear ranges
    over Go maps, and the order in which it queues the removed entries for index cleanup is random in the
    real code; the harness records the observed order on the `clear` line and the model takes it as input
    (it is a function of it, and every theorem holds for every order)."""
    impl = os.path.join(self.work, "%s.%s.impl" % (stream, tag))
    model = os.path.join(self.work, "%s.%s.model" % (stream, tag))
    resolved = ops_path + ".resolved"
    for p in (impl, model, resolved):
        if os.path.exists(p):
            os.remove(p)
    rc, out = self.harness("exec", stream, ops_path, impl)
    if rc != 0:
        return False, impl, model, "harness exec rc=%d: %s" % (rc, out[-3000:])
    src = resolved if os.path.exists(resolved) else ops_path
    rc, err = self.drv(stream, src, model)
    if rc != 0:
        return False, impl, model, "lean driver rc=%d: %s" % (rc, err[-3000:])
    return True, impl, model, ""


def _case_of(lines, i):
    starts = [k for k, l in enumerate(lines) if l.startswith("case")]
    s = starts[i]
    e = starts[i + 1] if i + 1 < len(starts) else len(lines)
    return lines[s:e]


def _fingerprint(ostream, verdict):
    """Stable name of the failing input class: stream, clause, and for the real-generator streams the proxy attribute
    and the xDS type concerned (so that different key/invalidation defects are different findings)."""
    f = verdict.split()
    clause = f[1] if len(f) > 1 else "?"
    if ostream == "writers" and clause.startswith("stale-after-"):
        clause = "stale"   # which op ran last is not part of the input class
    fp = "%s:%s" % (ostream, clause)
    d = [t for t in f if t.startswith("diff:")]
    if ostream in ("keys", "writers") and d:
        body = d[0][5:]                        # after "diff:"
        attr = [t[5:] for t in f if t.startswith("attr=")]
        m = re.match(r"^(\d+):(\d+):([^:]+):(.*)$", body)   # seq: <round>:<pos>:<attr>:<resource>
        if m and not attr:
            attr, body = [m.group(3)], m.group(4)
        if attr:
            fp += ":" + attr[0]
        fp += ":" + body.split("/")[0]         # xDS type (cds/eds/rds/sds)
        if "#" in body:                        # the cause, when the differing field identifies it (e.g. stale-mx)
            fp += ":" + body.rsplit("#", 1)[1]
    return fp, clause


def oracle(ctx, stream, case_lines, rep):
    """Property-level search on the implementation: the shrunk case, everything generated, then the
    exhaustive interleaving enumeration. Every distinct failing input class becomes its own violation."""
    cands = []
    if case_lines and len(case_lines) > 1:
        p = os.path.join(ctx.work, "%s.oracle.ops" % stream)
        with open(p, "w") as f:
            f.write("\n".join(case_lines) + "\n")
        cands.append((stream, p))
    g = os.path.join(ctx.work, "%s.gen.ops" % stream)
    if os.path.exists(g):
        cands.append((stream, g))
    if stream == "cache":
        il = os.path.join(ctx.work, "interleave.gen.ops")
        if not os.path.exists(il):
            ctx.harness("gen", "interleave", ctx.seed, ctx.n(10, 40), il)
        if os.path.exists(il):
            cands.append(("interleave", il))
    first = None
    seen = set()
    for ostream, ops in cands:
        out = ops + ".verdict"
        if os.path.exists(out):
            os.remove(out)
        rc, log = ctx.harness("oracle", ostream, ops, out)
        if rc != 0 or not os.path.exists(out):
            continue
        verdicts = ctx.read_lines(out)
        lines = ctx.read_lines(ops)
        for i, v in enumerate(verdicts):
            if v.startswith("FAIL"):
                fp, clause = _fingerprint(ostream, v)
                if fp in seen or len(seen) >= 8:
                    continue
                seen.add(fp)
                found = (fp, "xDS cache violates clause '%s' on the real code (%s): %s" % (clause, ostream, " ".join(v.split()[2:])[:200]),
                         {"stream": ostream, "ops": _case_of(lines, i), "oracle_verdict": v, "correspondence": rep})
                if first is None:
                    first = found
                else:
                    ctx.violation(found[0], found[1], found[2], True)
    return first


def _build_stamp(repo):
    """sha1 of everything the harness binary depends on; None when it cannot be determined (then always rebuild)."""
    h = hashlib.sha1()
    try:
        for cmd in (["git", "-C", repo, "rev-parse", "HEAD"], ["git", "-C", repo, "diff", "HEAD"],
                    ["git", "-C", repo, "ls-files", "--others", "--exclude-standard"]):
            rc, out, dt = verif.sh(cmd, timeout=120)
            if rc != 0:
                return None
            h.update(out.encode())
            if cmd[-1] == "--exclude-standard":
                for rel in out.split("\n"):
                    p = os.path.join(repo, rel)
                    if rel.endswith(".go") and os.path.isfile(p):
                        h.update(open(p, "rb").read())
        d = os.path.join(verif.HARNESS, "c06")
        for root in (d, os.path.join(verif.HARNESS, "internal")):
            for dp, dn, fn in sorted(os.walk(root)):
                for f in sorted(fn):
                    if f.endswith(".go"):
                        h.update(f.encode())
                        h.update(open(os.path.join(dp, f), "rb").read())
        for f in ("go.mod",):
            h.update(open(os.path.join(verif.HARNESS, f), "rb").read())
        h.update(open(os.path.join(repo, "go.sum"), "rb").read())
    except OSError:
        return None
    return h.hexdigest()


def build_harness(ctx):
    """ONE build in the normal case: the harness with -tags "verif c06ext" (needs the newer entry points of
    pilot/pkg/xds/zz_verif_c06.go: delta request/push, typed config dump). Only if that fails the plain harness
    (hooks of the first C06 hook commits) is built and the broken tie is reported."""
    pkg = ctx.lc
    os.makedirs(verif.BIN, exist_ok=True)
    extra = []
    if os.path.realpath(verif.REPO) == "/repo":
        out = os.path.join(verif.BIN, pkg + ".ext")
        try:
            shutil.copyfile(os.path.join(verif.REPO, "go.sum"), os.path.join(verif.HARNESS, "go.sum"))
        except OSError:
            pass
    else:
        out = os.path.join(verif.BIN, pkg + ".ext.alt-" + hashlib.sha1(verif.REPO.encode()).hexdigest()[:8])
        alt = os.path.join(ctx.work, "alt.go.mod")
        with open(os.path.join(verif.HARNESS, "go.mod")) as f:
            txt = f.read().replace("=> /repo", "=> " + os.path.realpath(verif.REPO))
        with open(alt, "w") as f:
            f.write(txt)
        shutil.copyfile(os.path.join(verif.REPO, "go.sum"), os.path.join(ctx.work, "alt.go.sum"))
        extra = ["-modfile=" + alt]
    # never run a stale binary - but do not rebuild an up-to-date one either (the shared Go build cache is trimmed by
    # concurrent checks; a cold build takes minutes on a loaded machine): the binary carries a stamp of everything it was
    # built from (HEAD, working-tree diff and untracked files of the repo, the harness sources, go.mod/go.sum)
    stamp = _build_stamp(os.path.realpath(verif.REPO))
    if stamp and os.path.exists(out) and os.path.exists(out + ".stamp") and open(out + ".stamp").read() == stamp:
        ctx.log("harness binary is up to date with %s and harness/c06 (stamp %s): not rebuilt" % (verif.REPO, stamp[:12]))
        ctx.bin_path = out
        ctx.harness_ok = True
        return True
    for f in (out, out + ".stamp"):
        if os.path.exists(f):
            os.remove(f)
    cmd = ["go", "build", "-tags", "verif c06ext"] + extra + ["-o", out, "./" + pkg]

    def cache_trouble(log):
        # the shared Go build cache is trimmed / cleaned by concurrent checks: compiled packages vanish under the build
        return ".cache/go-build" in log and "no such file or directory" in log

    env = verif.go_env()
    rc, log, dt = verif.sh(cmd, cwd=verif.HARNESS, env=env, timeout=1500)
    for attempt in range(2):
        if rc == 0 or not cache_trouble(log):
            break
        time.sleep(5 * (attempt + 1))
        rc, log, dt = verif.sh(cmd, cwd=verif.HARNESS, env=env, timeout=1500)
    if rc != 0 and cache_trouble(log):
        # last resort: a build cache of this check's own (cold the first time, reused afterwards)
        env = dict(env)
        env["GOCACHE"] = os.path.join(os.path.dirname(ctx.work.rstrip("/")), "C06.gocache")
        os.makedirs(env["GOCACHE"], exist_ok=True)
        ctx.log("shared Go build cache is being trimmed by another process; building with GOCACHE=%s" % env["GOCACHE"])
        rc, log, dt = verif.sh(cmd, cwd=verif.HARNESS, env=env, timeout=2400)
    ctx.log("go build -tags 'verif c06ext' ./c06 rc=%d (%.1fs)" % (rc, dt))
    if rc == 0:
        if stamp:
            with open(out + ".stamp", "w") as f:
                f.write(stamp)
        ctx.bin_path = out
        ctx.harness_ok = True
        return True
    if not ctx.go_build():
        return False
    ctx.tie_broken("harness-build:c06-ext-hooks",
                   "the newer verif hooks (VerifC06InitConnection, VerifC06NewDeltaConnection, VerifC06ProcessDeltaRequest, "
                   "VerifC06PushConnectionDelta, VerifC06ConfigDumpTypes in pilot/pkg/xds/zz_verif_c06.go) do not build against this tree; "
                   "the real initConnection, delta and typed config-dump writers were not exercised:\n" + log)
    return True


def race(ctx, secs):
    """Stress run (goroutine races cannot be scheduled deterministically): the REAL ProxyUpdate in 8 goroutines races
    with the REAL config-change pipeline (store update -> debounce -> Push: initPushContext, StartPush) on a
    FakeDiscoveryServer with 8 connected ADS clients. Two passive probes (a wrapper around s.Cache that timestamps
    Clear/ClearAll, a wrapper around the CDS generator that records the request it is given and compares its answer
    with an uncached twin) count (a) push requests whose context was already replaced by a Clear that ended before
    their Start, (b) stale entries stored in the real CDS cache by such requests, (c) CDS answers served from the cache
    that were derived from an older DestinationRule than the request's own context holds. All three must be 0."""
    rc, out = ctx.harness("race", "f8", secs, 8, timeout=900)
    if rc != 0:  # wall-clock deadlines of the fake server on a loaded machine: one more try
        rc, out = ctx.harness("race", "f8", secs, 8, timeout=900)
    m = re.search(r"proxyupdate_calls=(\d+) clears=(\d+) .*incoherent_pairs=(\d+) \(from ProxyUpdate only: (\d+)\)", out)
    st = re.search(r"token == its Start\): (\d+)", out)
    sv = re.search(r"request's own context holds: (\d+)", out)
    if rc != 0 or not (m and st and sv):
        ctx.tie_broken("race-run:f8", out)
        return
    calls, clears, inc, stored, served = int(m.group(1)), int(m.group(2)), int(m.group(3)), int(st.group(1)), int(sv.group(1))
    ctx.count("race.f8.proxyupdate_calls", calls)
    ctx.count("race.f8.pushes", clears)
    ctx.count("race.f8.incoherent_pairs", inc)
    ctx.count("race.f8.stale_entries_stored", stored)
    ctx.count("race.f8.stale_answers_served", served)
    me = re.search(r"endpoint_index_ops=(\d+) concurrent_eds_generations=(\d+)", out)
    if me:
        ctx.count("race.endpoint_index_ops", int(me.group(1)))
        ctx.count("race.concurrent_eds_generations", int(me.group(2)))
    ctx.note_case("race f8 %d %d" % (calls // 100000, clears // 1000), True)
    if inc or stored:
        ctx.violation("race:f8-incoherent-writer",
                      "a real cache writer paired an already replaced push context with a later start time under concurrency "
                      "(%d requests, %d stale entries stored, %d stale CDS answers served)" % (inc, stored, served),
                      {"stream": "race", "ops": ["race f8 %d 8" % secs], "output": out[-3000:]}, True)
    elif served:
        # no incoherent (context, Start) pair was seen, yet stale answers came out of the cache: a different defect
        # (an invalidation that does not happen, a key that misses a version) - not F8
        ctx.violation("race:stale-served-by-coherent-writers",
                      "%d CDS answers served from the cache were derived from an older DestinationRule than the request's own "
                      "context holds, although every request paired its context with a coherent start time" % served,
                      {"stream": "race", "ops": ["race f8 %d 8" % secs], "output": out[-3000:]}, True)


def assert_probe(ctx):
    """lruCache.assertUnchanged (debug facility, UNSAFE_PILOT_ENABLE_RUNTIME_ASSERTIONS only, not modelled) panics in its own
    goroutine: observed from outside the process. Equal replacement: the process lives; changed replacement: it dies."""
    rc1, out1 = ctx.harness("probe", "assert", "same", "-", "-", timeout=120)
    rc2, out2 = ctx.harness("probe", "assert", "changed", "-", "-", timeout=120)
    same_ok = rc1 == 0 and "alive v1" in out1
    changed_ok = rc2 != 0 and "assertion failed" in out2
    ctx.count("assertprobe.equal_replacement_survives", 1 if same_ok else 0)
    ctx.count("assertprobe.changed_replacement_panics", 1 if changed_ok else 0)
    if not (same_ok and changed_ok):
        ctx.tie_broken("assert-probe", "lruCache.assertUnchanged does not behave as documented (equal replacement: rc=%d, "
                       "changed replacement: rc=%d)\n%s\n%s" % (rc1, rc2, out1[-800:], out2[-800:]))


def run(ctx):
    ctx.run_pair = types.MethodType(_run_pair, ctx)
    ctx.rule = ("cache: cases = random op sequences (5-300 ops: add/get/clear/clearall/flush/maxsize/snapshot/keys + malformed) on one "
                "XdsCacheImpl, LRU size 1-5 (sometimes unbounded), 2-7 keys, 4 typed caches + unknown types, Start tokens equal/newer/older "
                "than the last Clear, zero Start and nil request, dependencies over 9 configs incl. PeerAuthentication; "
                "keys: one case = one mesh variant (20 bits) x one of 16 base proxies x (44 single-attribute pairs + 5 multi-attribute "
                "pairs + 11 sequences of 3-7 proxies served from one cache); writers: one case = 6-60 connect/request/push/pushstale/dump/"
                "dumptypes/change/toggle/ep*/addrupdate/meshchange/check ops on 1-3 SotW or delta connections of a FakeDiscoveryServer wired as "
                "bootstrap wires it; interleave: one case = ALL interleavings of 2 writers x 1 invalidator (Clear or ClearAll) [x flusher] "
                "of one scenario; distinct = hash of (ops, implementation outputs); non-trivial = at least one op")
    ctx.assumptions = [
        "writers are coherent (theorem never_stale): a writer's Start token is older than every already executed invalidation of a "
        "dependency - and every already executed ClearAll - that its data does not reflect (StartPush stamps Start after the snapshot is "
        "published; processRequest, processDeltaRequest, forceEDSPush and both debug config dumps reuse the (LastPushContext, LastPushTime) "
        "pair; ProxyUpdate/AdsPushAll read the pair under pushContextMu) - validated on the real code by stream writers (sequential) and the "
        "race stress (statistical), not proved",
        "KeyDetermines (hypothesis of cache_invisible): if the snapshot an entry was generated from and a reader's snapshot agree on the "
        "GLOBAL inputs G and on the entry's DependentConfigs(), and the two keys (each computed on its own snapshot) are equal, generation "
        "for the reader yields the stored value - i.e. the key distinguishes proxies (key completeness, Cacheable()) AND carries a "
        "version/the names of every config generation reads beyond DependentConfigs() and G (peerAuthVersion, applicable DR/VS/EF names: "
        "such entries stay stored but unreachable; stored entries are NOT claimed fresh; for CDS the PeerAuthentication version of the proxy's "
        "filtered view in the key is the ONLY protection against PeerAuthentication changes, for EDS it is redundant with the modelled rule "
        "PeerAuthentication => EDS ClearAll: dropping it from the EDS key alone is not observable, dropping both is). Validated, not proved, by stream keys "
        "(44 proxy attributes on the real CDS/EDS/RDS/SDS generators) and stream writers",
        "in-sync invalidation (part of Coherent): every accepted change of a declared dependency reaches Clear with its key, and the inputs "
        "in G (MeshConfig, mesh networks, the ambient Address index, removal of a whole endpoint shard) change at ClearAll only "
        "(dropCacheForRequest incl. Forced => ClearAll, EndpointIndex.clearCacheForService / deleteServiceInner / GetOrCreateEndpointShard / "
        "DeleteShard, PeerAuthentication => EDS ClearAll, ConfigUpdate(kind Address) => ClearAll). Validated by stream writers on: config "
        "handlers of DR/VS/SE/Sidecar/EnvoyFilter/PeerAuthentication (change, delete, create), Secret/ConfigMap events, EDSUpdate, "
        "EDSCacheUpdate, SvcUpdate(delete), RemoveShard, PruneShard, mesh config + Forced push, ConfigUpdate(Address) with a harness-"
        "provided ambient index. NOT reached by any stream (assumed): the real ambient index's own event -> ConfigUpdate(Address) path, "
        "mesh networks changes, waypoint/ztunnel/gateway-API generators, delegate VirtualServices and service aliases in the RDS "
        "dependency list, WasmPlugin/Telemetry/AuthorizationPolicy (not cached types), the Kubernetes gateway-secret path of SDS",
        "Secrets and ConfigMaps are read live by SecretGen while the SDS cache is cleared only by the debounced push of the "
        "credentials controller's ConfigUpdate: inside that debounce window the cache serves the old certificate although a fresh "
        "generation yields the new one (the harness waits the window out before it checks)",
        "formalisation: the declared dependencies may depend on the snapshot (depsOf r S); readers that key on an older snapshot "
        "than the current one are not covered by cache_invisible",
        "the wall clock is strictly increasing between a writer's Start and any later Clear (Add rejects only token < cache token); a Clear "
        "whose wall-clock token EQUALS the Start of an earlier Add is covered by the model and the theorems but cannot be produced on the "
        "real cache (Clear reads time.Now() itself), so it is not in the differential tie",
        "ConfigKey.HashCode is injective on the configs in play; UnixNano of Start is non-negative; the cache keys themselves are 64-bit "
        "hashes (clusterCache.Key, EndpointBuilder.Key, route.Cache.Key: hash.Sum64) and peerAuthVersion is a hash of UID.ResourceVersion "
        "sums: KeyDetermines is stated for the hashed keys, i.e. it ASSUMES that no two inputs that generate differently collide (a "
        "collision serves a stale or foreign value on a coherent schedule)",
        "SDS authorisation: the harness runs with txds.DisableAuthorizationForSecret (every service account may read every secret), so "
        "'a cached secret of an authorised proxy is served to an unauthorised one' (authorisation must precede the cache lookup) is NOT "
        "judged; only the namespace rule of SecretGen is exercised",
        "the `check` reader is passive (zero Start: its Adds are no-ops), only real writers (requests, pushes, dumps of connections that "
        "have had a push) fill the cache. Known gaps of round 5, not detected by any stream: clusterCache.DependentConfigs naming only the "
        "first rule of a merged DestinationRule (a merged rule dr-b + dr-b2 is generated and both are changed, yet the mutant exits 0 - "
        "cause not found in the time given); no real registry event drives EDSUpdate/SvcUpdate (called directly); the real "
        "PushQueue/doSendPushes is imitated with CopyMerge; Sidecar content changes, ServiceEntry deletion and Kubernetes Service changes "
        "are not generated; interleave has 2 writers only",
        "lruCache.assertUnchanged (UNSAFE_PILOT_ENABLE_RUNTIME_ASSERTIONS, off in production) is not modelled; a probe observes it from "
        "outside the process on every run",
    ]
    ctx.trusted.append("pilot/pkg/model/zz_verif_c06.go (verif-tagged read-only snapshot of the typed caches: store with tokens and "
                       "dependencies, reverse index, evict queue, cache token)")
    ctx.trusted.append("pilot/pkg/xds/zz_verif_c06.go (verif-tagged entry points to unexported code, no behaviour change: VerifC06InitConnection "
                       "(real initConnection, then unregisters the connection so that the harness decides when a queued push is delivered), "
                       "VerifC06ProcessRequest, VerifC06ProcessDeltaRequest, VerifC06PushConnection, VerifC06PushConnectionDelta, "
                       "VerifC06ConfigDump, VerifC06ConfigDumpTypes, VerifC06NewConnection / VerifC06NewDeltaConnection (bare connections, "
                       "fallback build only))")
    ctx.trusted.append("harness wrappers around real objects (transparent, they only record): recCache around the shared XdsCache "
                       "(key sets given to Clear, ClearAll calls, Get hits/misses); in the race stress probeCache (timestamps of Clear/ClearAll) "
                       "and probeGen around the CDS generator (the request it is given, comparison with an uncached twin); the harness's "
                       "ambient index stub (model.NoopAmbientIndexes + a mutable set of HBONE-capable addresses)")
    ctx.trusted.append("the FakeDiscoveryServer of /repo's own test support re-wired the way bootstrap wires istiod (one XdsCache shared by "
                       "server, generators, SecretGen and EndpointIndex; bootstrap.InitGenerators; production SecretGen with the secret handler)")
    ctx.trusted.append("txds.DisableAuthorizationForSecret of /repo's test support (SubjectAccessReview of the fake kube clients always allows)")
    ctx.trusted.append("logical-to-wall-clock mapping of the harness (harness/c06/clock.go): only the order of tokens is observable by the cache")
    proved = ctx.lean_prove(THEOREMS)
    if not ctx.build_drv():
        return
    if not build_harness(ctx):
        return
    ctx.diff_stream("cache", ctx.n(600, 20000), oracle=oracle)
    st = os.path.join(ctx.work, "cache.run.impl.stats")
    if os.path.exists(st):
        d = dict(l.split() for l in ctx.read_lines(st) if len(l.split()) == 2)
        unresolved = int(d.get("timing_unresolved", 0))
        ctx.count("cache.timing_unresolved_cases", unresolved)
        ctx.count("cache.timing_retries", int(d.get("timing_retries", 0)))
        # what the generated ops did to the real cache (accepted / rejected writes by reason, evictions, PA => EDS ClearAll, crashes)
        for k, v in sorted(d.items()):
            if k not in ("timing_unresolved", "timing_retries"):
                ctx.count("cache.effect." + k, int(v))
        if unresolved * 20 > max(1, ctx.streams.get("cache", {}).get("cases", 0)):
            ctx.tie_broken("cache-timing", "%d cases could not be mapped to the wall clock (machine too loaded); "
                           "the cache correspondence was not established for them" % unresolved)
    # second line, independent of the model: the property oracle on every generated case ...
    g = os.path.join(ctx.work, "cache.gen.ops")
    if os.path.exists(g):
        out = g + ".verdict"
        rc, log = ctx.harness("oracle", "cache", g, out)
        if rc == 0 and os.path.exists(out):
            vs = ctx.read_lines(out)
            ctx.count("oracle.cache.cases", len(vs))
            ctx.count("oracle.cache.timing_unresolved", sum(1 for v in vs if "timing-unresolved" in v))
            if any(v.startswith("FAIL") for v in vs):
                found = oracle(ctx, "cache", None, None)
                if found:
                    ctx.violation(found[0], found[1], found[2], True)
        else:
            ctx.tie_broken("oracle-run:cache", log)
    # stream keys: KeyComplete validated on the real generators (warm shared cache vs. from scratch)
    ctx.diff_stream("keys", ctx.n(30, 400), oracle=oracle)
    st = os.path.join(ctx.work, "keys.run.impl.stats")
    if os.path.exists(st):
        for l in ctx.read_lines(st):
            f = l.split()
            if len(f) == 3:
                if f[0].startswith("cache-entries") or f[0].startswith("served-from") or f[0].startswith("rds-"):
                    ctx.count("keys." + f[0], int(f[1]))
                else:
                    ctx.count("keys.pairs.%s" % f[0], int(f[1]))
                    ctx.count("keys.pairs_where_generation_differs.%s" % f[0], int(f[2]))
    # stream writers: the coherent-writer hypothesis validated on the real request / push / debug-dump code paths
    ctx.diff_stream("writers", ctx.n(50, 1000), oracle=oracle)
    st = os.path.join(ctx.work, "writers.run.impl.stats")
    if os.path.exists(st):
        # per change target, and how many `check` reads were actually SERVED FROM THE CACHE (a check whose reads all miss is vacuous)
        for l in ctx.read_lines(st):
            f = l.split()
            if len(f) == 2:
                ctx.count("writers.effect." + f[0], int(f[1]))
    # ... and the exhaustive interleaving enumeration on the real cache
    il = os.path.join(ctx.work, "interleave.gen.ops")
    rc, log = ctx.harness("gen", "interleave", ctx.seed, ctx.n(10, 40), il)
    out = il + ".verdict"
    rc, log = ctx.harness("oracle", "interleave", il, out)
    if rc == 0 and os.path.exists(out):
        vs = ctx.read_lines(out)
        lines = ctx.read_lines(il)
        ctx.count("oracle.interleave.scenarios", len(vs))
        ctx.count("oracle.interleave.schedules", sum(int(v.split("=")[1]) for v in vs if v.startswith("OK schedules=")))
        for i, v in enumerate(vs):
            ctx.note_case("interleave\n" + lines[i].split(" ", 2)[-1] + "\n" + v, True)
            if v.startswith("FAIL"):
                clause = v.split()[1]
                ctx.violation("interleave:%s" % clause,
                              "xDS cache hands out a stale resource under an interleaving of coherent writers and an invalidator",
                              {"stream": "interleave", "ops": [lines[i]], "oracle_verdict": v}, True)
    else:
        ctx.tie_broken("oracle-run:interleave", log)
    # goroutine races between the real writers and the real invalidation/publication (F8)
    race(ctx, ctx.n(5, 45))
    assert_probe(ctx)
    if not proved and not ctx.violations:
        pass  # finish() reports the broken proof; the searches above found no failing input


def replay(ctx, path):
    import json
    ctx.run_pair = types.MethodType(_run_pair, ctx)
    obj = json.load(open(path))
    rep = obj.get("replay", {})
    ops = rep.get("ops") or (rep.get("extra") or {}).get("ops")
    stream = rep.get("stream") or (rep.get("extra") or {}).get("stream") or "cache"
    if not ops:
        ctx.log("replay file has no ops; re-running the full check")
        return run(ctx)
    if not (ctx.build_drv() and build_harness(ctx)):
        return
    # a replay judges the replayed input only: leftovers of an earlier full run must not reach the oracle
    for left in os.listdir(ctx.work):
        if left.endswith(".gen.ops") or left.endswith(".gen.ops.verdict") or ".min." in left or left.endswith(".oracle.ops"):
            try:
                os.remove(os.path.join(ctx.work, left))
            except OSError:
                pass
    p = os.path.join(ctx.work, "replay.ops")
    with open(p, "w") as f:
        f.write("\n".join(ops) + "\n")
    if stream == "race":
        return race(ctx, 30)
    if stream == "interleave":
        out = p + ".verdict"
        ctx.harness("oracle", "interleave", p, out)
        for v in ctx.read_lines(out):
            ctx.log("replay verdict:", v)
            if v.startswith("FAIL"):
                ctx.violation("interleave:%s" % v.split()[1], "replayed interleaving still fails",
                              {"stream": "interleave", "ops": ops, "oracle_verdict": v}, True)
        return
    ok, impl, model, log = ctx.run_pair(stream, p, "replay")
    m = ctx.compare(stream, p, impl, model)[2] if ok else None
    found = oracle(ctx, stream, ops, m.to_json() if m else None)
    if found:
        ctx.violation(found[0], found[1], found[2], True)
    elif m is not None:
        ctx.tie_broken("correspondence:%s" % stream, "replayed case still differs", m.to_json())
    if ok:
        ctx.account(stream, p, impl)


MANIFEST = {
    "level_text": ("Lean 4 proof over an exact model of the typed xDS cache (lruCache on simplelru: Add with both token checks, Get, "
                   "Clear, ClearAll, Flush, evict queue, reverse index; XdsCacheImpl dispatch incl. PeerAuthentication => EDS ClearAll): "
                   "for every sequence of operations by any number of writers the reverse index is complete and leak-free, Clear is "
                   "effective, stale writers are rejected, no stored entry is older than the latest invalidation of one of its "
                   "dependencies. Under two stated hypotheses - the writer/invalidator discipline Coherent (a writer's token is older than "
                   "every invalidation of a dependency, and every ClearAll, that its snapshot does not reflect; Clear(cs) changes only cs; "
                   "the global inputs G - MeshConfig, networks, ambient addresses, removal of an endpoint shard - change at ClearAll only) and "
                   "the key hypothesis KeyDetermines (two snapshots that agree on G and on the entry's snapshot-dependent "
                   "DependentConfigs, with equal keys, generate the same value) - Get with the key computed on the current snapshot returns "
                   "what a fresh generation returns for the asking proxy, also across changes of G (never_stale, cache_invisible, "
                   "global_input_witness; stored entries are not claimed fresh, readers keying on an older snapshot are not covered); witnesses "
                   "show each hypothesis is necessary. The model is tied to /repo on every run by a line-by-line differential on the real "
                   "cache; the two hypotheses are validated (not proved) on the real key functions, cache writers and invalidation paths."),
    "level_note": ("Trusted: Lean kernel + {propext, Classical.choice, Quot.sound}; the hand-written model (tied by differential testing "
                   "through model.XdsCache + the read-only hook pilot/pkg/model/zz_verif_c06.go); the harness's order-preserving mapping "
                   "of logical times to the wall clock read by Clear. Validated only, not proved: KeyDetermines for EndpointBuilder / "
                   "clusterCache / route Cache / SecretResource keys (stream keys: real CDS/EDS/RDS/SDS generators, warm shared cache vs "
                   "from scratch, 44 proxy attributes singly, in combinations and in sequences, on generated meshes) and Coherent for "
                   "initConnection / processRequest / processDeltaRequest / forceEDSPush / pushConnection[Delta] / both debug config dumps "
                   "and for the invalidation paths incl. EDSUpdate, RemoveShard, Forced pushes and ConfigUpdate(Address) (stream writers, "
                   "sequential schedules only, entry points through pilot/pkg/xds/zz_verif_c06.go). Goroutine races between the real writers "
                   "and initPushContext are only explored by a stress run with passive probes (statistical). Not reached by any stream: the "
                   "real ambient index's event path, mesh-networks changes, waypoint/ztunnel generators, delegate VirtualServices and service "
                   "aliases, a Clear whose wall-clock token equals an earlier Add's Start, SDS authorisation-before-cache (authorisation is disabled in the "
                   "harness), a merged DestinationRule's second rule in clusterCache.DependentConfigs (generated but the mutant is not detected), real "
                   "registry events and the real PushQueue. Assumed: no collision of the 64-bit hashed cache keys / peerAuthVersion; strictly increasing wall clock, ConfigKey "
                   "hash injective. Eight defects found by these streams were fixed in /repo (SDS key vs mesh-default private key "
                   "provider; debug config dump pairing LastPushContext with time.Now(); F8: ProxyUpdate/AdsPushAll pairing the global "
                   "context with a clock read unsynchronised with cache invalidation + publication; EDS key and RDS key without the proxy's "
                   "IP family; RDS key without the catch-all cluster; CDS key without the credential-socket flags; RDS key without proxyHeaders)."),
    "technique": "Lean 4 theorems (induction over arbitrary op sequences) over an exact model of the cache state machine + differential correspondence with the real Go cache + property oracle with exhaustive small-interleaving enumeration + differential validation of the proof's hypotheses on the real generators",
    "design_ref": "DESIGN.md section 5 C06",
}
