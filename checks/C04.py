"""C04 - xDS request/ACK/NACK handling answers exactly when the protocol requires.

Proof (lean/IstioModel/C04): classification for every state and request (Theorems), the code that ANSWERS - processRequest /
pushXds / processDeltaRequest / pushDeltaXds / forceEDSPush / push loops: what is sent, what the generators are asked for, the
watch table (ProcessTheorems) -, the receive side (RecvTheorems), record = last request over every schedule of the SotW and of
the delta closed loop (ProtocolTheorems, DeltaTraceTheorems, DeltaProtocolTheorems), no loop at trace level (NoLoopTheorems,
DeltaNoLoopTheorems), crash freedom.
Tie: T-diff - the real functions of /repo vs the Lean model, same op lines, line by line, 14 streams: sotw, delta, warm (ShouldRespond
/ Send / shouldRespondDelta / sendDelta on a real model.Proxy), loop, dloop (closed loops), proc, dproc (the real request / push
handlers on a recording stream with recording generators), tproc (the same for every type-URL constant), types + GenTie (type
table), recv (the real Receive / receiveDelta on a real DiscoveryServer), sloop (the real Stream / StreamDeltas loops), enum, denum,
enum2 (exhaustive single-step and bounded multi-step enumeration).
On break: harness `oracle` evaluates the property's clauses on the real code, keyed on the history of the exchange.
"""
import os

# property-level modules only: plumbing lives in Lemmas.lean, ProcessLemmas.lean, DeltaProtocolLemmas.lean, NoLoop.lean and
# the model files, which are built (imported), grepped and audited through their users but not counted as obligations
THEOREMS = ["IstioModel.C04.Theorems", "IstioModel.C04.ProtocolTheorems", "IstioModel.C04.DeltaTraceTheorems",
            "IstioModel.C04.ProcessTheorems", "IstioModel.C04.RecvTheorems", "IstioModel.C04.DeltaProtocolTheorems",
            "IstioModel.C04.NoLoopTheorems", "IstioModel.C04.DeltaNoLoopTheorems", "IstioModel.C04.StreamLoop",
            "IstioModel.C04.GenTie"]
GENERATED = "IstioModel/Generated/C04Types.lean"


def gen_table(ctx):
    """T-gen: regenerate the table of the real per-type predicates over EVERY type-URL constant of the tree under test
    (constants found by parsing the sources); GenTie.lean proves the model's predicates equal to it."""
    import verif as V
    out = os.path.join(V.LEAN, GENERATED)
    os.makedirs(os.path.dirname(out), exist_ok=True)
    tmp = out + ".new"
    if os.path.exists(tmp):
        os.remove(tmp)
    rc, log = ctx.harness("table", "C04Types", tmp)
    if rc != 0 or not os.path.exists(tmp):
        if os.path.exists(out):
            os.remove(out)
        ctx.tie_broken("table-generation", "harness `table` failed: the type constants could not be enumerated / evaluated\n" + log[-3000:])
        return False
    new = open(tmp).read()
    old = open(out).read() if os.path.exists(out) else None
    if old != new:
        with open(out, "w") as f:   # never prove against a stale table; an unchanged one keeps lake's cache valid
            f.write(new)
    os.remove(tmp)
    rows = 0
    for line in log.split("\n"):
        if line.startswith("table:"):
            for kv in line.split()[1:]:
                k, _, v = kv.partition("=")
                if v.isdigit():
                    ctx.counters["table." + k] = int(v)
            rows = ctx.counters.get("table.rows", 0)
    ctx.evaluations += rows
    for i in range(rows):
        ctx.distinct.add(b"typerow%d" % i)
    ctx.extra["type_universe_table"] = {"rows": rows, "evaluations_of_real_predicates": ctx.counters.get("table.evaluations", 0),
                                        "unchanged_since_last_run": old == new,
                                        "domain": "every constant named *Type in pkg/model/xds.go and pilot/pkg/xds/v3/model.go, every "
                                                  "TypeDebug* constant of pilot/pkg/xds/statusgen.go, an unknown and the empty type URL"}
    return True


def oracle(ctx, stream, case_lines, rep):
    """Property-level search on the implementation: first the shrunk case, then everything generated."""
    cands = []
    p = os.path.join(ctx.work, "%s.oracle.ops" % stream)
    with open(p, "w") as f:
        f.write("\n".join(case_lines) + "\n")
    cands.append(p)
    g = os.path.join(ctx.work, "%s.gen.ops" % stream)
    if os.path.exists(g):
        cands.append(g)
    for ops in cands:
        out = ops + ".verdict"
        if os.path.exists(out):
            os.remove(out)
        rc, log = ctx.harness("oracle", stream, ops, out)
        if rc != 0 or not os.path.exists(out):
            ctx.log("oracle run for stream %s failed (rc=%s): %s" % (stream, rc, log[-500:]))
            ctx.count("oracle.failed-runs")
            continue
        verdicts = ctx.read_lines(out)
        for i, v in enumerate(verdicts):
            if v.startswith("FAIL"):
                clause = v.split()[1]
                # recover the failing case's ops
                lines = ctx.read_lines(ops)
                starts = [k for k, l in enumerate(lines) if l.startswith("case")]
                s = starts[i]
                e = starts[i + 1] if i + 1 < len(starts) else len(lines)
                return ("%s:%s" % (stream, clause),
                        "xDS %s request handling violates clause '%s' on the real code" % (stream, clause),
                        {"stream": stream, "ops": lines[s:e], "oracle_verdict": v, "correspondence": rep})
    return None


def _distinct_tie_names(ctx):
    """Distinct tie breaks get distinct fingerprints (and so distinct replay files): the correspondence break of a
    stream is named after the stream, the kind of the first differing op and a hash of that op with both outputs."""
    import hashlib
    orig = ctx.tie_broken
    if getattr(orig, "_c04", False):
        return

    def tie_broken(name, detail, extra=None):
        if name.startswith("correspondence:") and isinstance(extra, dict) and extra.get("ops"):
            ops = extra["ops"]
            i = extra.get("first_difference_at_op", 0)
            op = ops[i] if isinstance(i, int) and 0 <= i < len(ops) else ""
            h = hashlib.sha1(("%s\n%s\n%s" % (op, extra.get("implementation"), extra.get("model"))).encode()).hexdigest()[:8]
            name = "%s:%s:%s" % (name, (op.split(" ", 1)[0] or "none"), h)
        return orig(name, detail, extra)

    tie_broken._c04 = True
    ctx.tie_broken = tie_broken

    # one replay file per failing CASE (not per fingerprint): two different inputs that break the same clause of the
    # same stream keep their own files; the fingerprint (what known-findings match on) stays `stream:clause`
    orig_violation = ctx.violation

    def violation(fingerprint, what, replay_obj, found_input):
        import json
        n = len(ctx.violations)
        orig_violation(fingerprint, what, replay_obj, found_input)
        # never in --replay mode: lib then writes `<input>.again.json` so that a replay run does not rewrite its input
        if not ctx.replay and len(ctx.violations) > n and isinstance(replay_obj, dict) and replay_obj.get("ops"):
            v = ctx.violations[-1]
            h = hashlib.sha1(json.dumps(replay_obj.get("ops")).encode()).hexdigest()[:8]
            new_path = v["path"][:-5] + "-" + h + ".json"
            try:
                os.replace(v["path"], new_path)
                v["path"] = new_path
            except OSError:
                pass

    ctx.violation = violation


def run(ctx):
    _distinct_tie_names(ctx)
    ctx.rule = ("cases of 14 streams: random request/send sequences (1-40 ops) over 10 xDS types, names within {a,b,c,*}, nonce in "
                "{empty,current,stale,of a failed send}, with/without error_detail, send ok/fail (sotw, delta, warm); closed-loop "
                "schedules with undelivered answers and other types' requests (loop, dloop); request/push sequences with scripted "
                "generator answers incl. nil / error / delta-aware, gRPC, Forced / non-Endpoints pushes (proc, dproc); the same for "
                "EVERY type-URL constant of the tree (tproc, types); scripted first requests on a real server (recv); 20 scenarios in "
                "the real Stream / StreamDeltas loops (sloop); every (state class x request class) and every 2-step (thorough 3-step) "
                "op sequence over a tiny universe (enum, denum, enum2); distinct = hash of (ops, implementation outputs); "
                "non-trivial = at least one op")
    ctx.assumptions = [
        "a real Envoy/ztunnel behaves like the conformant clients of Protocol.lean / DeltaProtocol.lean: it answers every response with "
        "exactly one ACK or NACK echoing that response's nonce (SotW: carrying its current names; delta: attaching the subscription "
        "changes it has not sent yet), and sends every delta subscription change exactly once",
        "delta_no_loop and delta_ack_silent are about an ACK that carries NO subscribe / unsubscribe / initial_resource_versions "
        "entries; an ACK that carries a change is covered by dtail_responses_bounded (answered at most once for the change, never "
        "for its own sake) and dproc_resubscribe_silent (names already on record: silent)",
        "tail_responses_bounded / dtail_responses_bounded bound the responses of a run in which the environment is quiet (no further "
        "subscription change, push or warming mark); a bound for schedules WITH such events (each can cost a bounded number of "
        "responses) is not proved",
        "gRPC framing is outside the model; the select loops of Stream / StreamDeltas are modelled as an ordered event list "
        "(StreamLoop.lean) and executed in 20 scripted scenarios (sloop), the channel hand-over of Receive in recv / sloop; Send / "
        "sendDelta are modelled by their watch update; generators are abstract (any answer) in the theorems and scripted in the tie",
        "sloop observes the real loops through wall-clock waits: up to 20 s for a response or for the stream function to return "
        "(a miss is reported as stream-does-not-end), 150 ms for 'the loop is idle' (too short a wait sends the request to the other "
        "select arm, which behaves alike: no false alarm), 50 ms after cancelling a context",
        "features.EnableUnsafeAssertions is off (production default): the panic in shouldRespondDelta's 'subscribed resources check "
        "mismatch' branch is not modelled and not executed",
        "delta trace theorems assume ReqsOK: initial_resource_versions only on the first request of a type on a stream (the single-step "
        "theorems and the streams delta / dproc / denum cover later ones); dloop requests carry none",
        "recv requests carry no resource names and no nonce; sloop scenarios are scripted (8 per run)",
        "computeProxyState runs on the real server in sloop / recv and, for non-Endpoints pushes, on the bare server of proc / dproc "
        "(where it recomputes nothing: no Env); its effect on what is generated is outside this property (C01 / C06)",
        "the no-loop bounds count responses that go out; answer ATTEMPTS (generator calls) are bounded only indirectly: every "
        "attempt consumes one request, and in a quiet tail every new request is the ACK of a delivered response - a watch with an "
        "empty NonceSent and k queued ACKs costs k generator calls and no response (not stated as a theorem)",
        "recv: the outcome of handling debug / unknown / empty type URLs is that of the production generators for a plaintext and "
        "for an authenticated client (table procClass, tied on every run)",
        "delta_trace_record / dloop_quiescent_record_matches are about NAMED types (EDS, RDS, SDS, ECDS): for wildcard types every "
        "push replaces the record by what it carries (modelled: sentNames; tied in dloop; bookkeeping is property C03)",
        "dproc_resubscribe_silent (an ACK re-subscribing to names on record is not answered) describes /repo as it is; the oracle "
        "treats it as an observation: answering with exactly the re-subscribed names would be accepted",
    ]
    ctx.trusted.append("pilot/pkg/xds/zz_verif_c04.go (verif-tagged accessors for shouldRespondDelta, sendDelta)")
    ctx.trusted.append("pilot/test/xds.FakeDiscoveryServer (the real DiscoveryServer of streams recv / sloop is built by this test helper)")
    ctx.trusted.append("harness/c04/types.go: go/parser extraction of the type-URL constants from pkg/model/xds.go, pilot/pkg/xds/v3/model.go, "
                       "pilot/pkg/xds/statusgen.go (a constant declared elsewhere would be missed)")
    ctx.trusted.append("pilot/pkg/xds/zz_verif_c03.go (processRequest, processDeltaRequest, pushConnection, pushConnectionDelta on a bare server), "
                       "pkg/xds/zz_verif_c04b.go + pilot/pkg/xds/zz_verif_c04b.go (Receive / receiveDelta run to completion, recover() around them)")
    # the harness first: the table of the real per-type predicates is an input of the proof (GenTie.lean)
    if not ctx.go_build():
        return
    have_table = gen_table(ctx)
    # every Lean file the proofs rest on is grepped for forbidden constructs: C04's own, the generated table, and the two
    # C03 files Process.lean imports
    d = os.path.join(os.path.dirname(os.path.dirname(os.path.abspath(__file__))), "lean", "IstioModel")
    all_mods = ["IstioModel.C04." + f[:-5] for f in sorted(os.listdir(os.path.join(d, "C04"))) if f.endswith(".lean")]
    all_mods += ["IstioModel.C03.Model", "IstioModel.C03.Server", "IstioModel.Common.Wire"]
    if have_table:
        all_mods.append("IstioModel.Generated.C04Types")
    proved = ctx.lean_prove(THEOREMS if have_table else [m for m in THEOREMS if not m.endswith("GenTie")], all_mods=all_mods)
    if not ctx.build_drv():
        return
    # every type constant judged against the xDS protocol on the real predicates (oracle only; found input for a table break)
    ctx.diff_stream("types", 10 ** 9, oracle=oracle)
    # ... and EVERY row of the table through the real processRequest / processDeltaRequest / pushConnection[Delta] with
    # recording generators keyed by the type URL (first request, ACK, NACK, stale, added names, ...): the model handles
    # a URL outside the ten modelled types as NDS - GenTie.other_rows_like_nds put to the test on the handlers
    ctx.diff_stream("tproc", ctx.n(300, 4000), oracle=oracle)
    n = ctx.n(1500, 40000)
    ctx.diff_stream("sotw", n, oracle=oracle)
    ctx.diff_stream("delta", n, oracle=oracle)
    # the scripted reconnect order "EDS before CDS" with a changed cluster set (warming; shared with C05)
    ctx.diff_stream("warm", ctx.n(600, 12000), oracle=oracle)
    # closed loop: real ShouldRespond/Send composed with the conformant client of Protocol.lean
    ctx.diff_stream("loop", ctx.n(800, 20000), oracle=oracle)
    # the code that ANSWERS: real processRequest / pushXds / pushConnection and processDeltaRequest / pushDeltaXds /
    # forceEDSPush / pushConnectionDelta on a recording stream with recording generators
    ctx.diff_stream("proc", ctx.n(1200, 30000), oracle=oracle)
    ctx.diff_stream("dproc", ctx.n(1200, 30000), oracle=oracle)
    # delta closed loop: real shouldRespondDelta / sendDelta composed with the conformant delta client of DeltaProtocol.lean
    # (pending subscription changes attached to ACKs / NACKs, pushes overtaking ACKs)
    ctx.diff_stream("dloop", ctx.n(600, 15000), oracle=oracle)
    # exhaustive single-step enumeration: every (state class x request class) over a tiny universe; SotW complete in
    # both tiers, delta reduced in the quick tier and complete in the thorough tier (the harness reads VERIF_TIER)
    ctx.diff_stream("enum", 10 ** 9, oracle=oracle)
    ctx.diff_stream("denum", 10 ** 9, oracle=oracle)
    # bounded-exhaustive MULTI-step enumeration: all 2-step (thorough: SotW all 3-step) sequences over a tiny alphabet
    ctx.diff_stream("enum2", 10 ** 9, oracle=oracle)
    # the REAL event loops xds.Stream / StreamDeltas on a real DiscoveryServer through fake gRPC streams: a failing request
    # ends the stream, every push reaches the connection (pushEv.done), Context().Done(), EOF
    ctx.diff_stream("sloop", 20, oracle=oracle)
    # the receive side: malformed first requests through the real xds.Receive / receiveDelta on a real DiscoveryServer,
    # every forwarded request then through the real processRequest / processDeltaRequest (crash freedom)
    ctx.diff_stream("recv", ctx.n(600, 6000), oracle=oracle)
    ctx.extra["single_step_enumeration"] = {
        "sotw": "10 types x (no watch | names within {a,b} x nonce sent x AlwaysRespond x LastError, CDS also with/without an EDS watch) "
                "x (names within {a,b} + a duplicate) x nonce {empty,current,stale} x {request,NACK}: complete in both tiers",
        "delta": "quick: types EDS, WDS, names within {a}, subscribe / unsubscribe within {a,*}; thorough: EDS, CDS, WDS, WL, ECDS, names within "
                 "{a,b}, subscribe / unsubscribe within {a,b,*}, with/without initial_resource_versions",
        "cases_this_run": {k: ctx.streams.get(k, {}).get("cases", 0) for k in ("enum", "denum")},
    }
    # the oracle also runs on every generated case (second line, independent of the model)
    for stream in ("sotw", "delta", "warm", "loop", "proc", "dproc", "recv", "dloop", "enum", "denum", "enum2", "types", "tproc", "sloop"):
        g = os.path.join(ctx.work, "%s.gen.ops" % stream)
        if os.path.exists(g):
            out = g + ".verdict"
            if os.path.exists(out):
                os.remove(out)
            rc, log = ctx.harness("oracle", stream, g, out)
            if rc != 0 or not os.path.exists(out):
                # an oracle run that dies is reported, never skipped: the second line of defence did not run
                ctx.tie_broken("oracle-run:%s" % stream, "harness `oracle %s` failed (rc=%s) on the generated cases:\n%s"
                               % (stream, rc, log[-3000:]))
                continue
            if rc == 0 and os.path.exists(out):
                bad = [v for v in ctx.read_lines(out) if v.startswith("FAIL")]
                ctx.count("oracle.%s.cases" % stream, len(ctx.read_lines(out)))
                # per clause / class / type / nonce-kind counts of what the oracle judged
                if os.path.exists(out + ".stats"):
                    for l in ctx.read_lines(out + ".stats"):
                        k, _, v = l.rpartition(" ")
                        if k and v.isdigit():
                            ctx.count("oracle.%s.%s" % (stream, k), int(v))
                if bad:
                    found = oracle(ctx, stream, ["case 0 %s" % stream], None)
                    if found:
                        ctx.violation(found[0], found[1], found[2], True)
    if not proved and not ctx.violations:
        # a proof broke while the correspondence still holds: search already ran above (oracle on all cases)
        pass


def replay(ctx, path):
    import json
    obj = json.load(open(path))
    rep = obj.get("replay", {})
    ops = rep.get("ops") or (rep.get("extra") or {}).get("ops")
    stream = rep.get("stream") or (rep.get("extra") or {}).get("stream") or "sotw"
    if not ops:
        ctx.log("replay file has no ops; re-running the full check")
        return run(ctx)
    _distinct_tie_names(ctx)
    if not (ctx.build_drv() and ctx.go_build()):
        return
    p = os.path.join(ctx.work, "replay.ops")
    with open(p, "w") as f:
        f.write("\n".join(ops) + "\n")
    ok, impl, model, log = ctx.run_pair(stream, p, "replay")
    _, _, m = ctx.compare(stream, p, impl, model)
    found = oracle(ctx, stream, ops, m.to_json() if m else None)
    if found:
        ctx.violation(found[0], found[1], found[2], True)
    elif m is not None:
        ctx.tie_broken("correspondence:%s" % stream, "replayed case still differs", m.to_json())
    ctx.account(stream, p, impl)


MANIFEST = {
    "level_text": ("Lean 4 proof over an exact model of the request handling of pkg/xds/server.go, pilot/pkg/xds/{ads,delta,xdsgen}.go and "
                   "Proxy.NewWatchedResource. (1) Classification, all states and requests, SotW and delta: first request / reconnect / "
                   "added names answered; ACK, NACK for a watched type, stale nonce, unsubscribe silent; a request on a watch nothing was "
                   "sent on is a new request; a NACK for an unwatched type is the first request; a delta subscription change on a NACK or "
                   "stale ACK applied; never_crashes. (2) The code that answers (processRequest, pushXds, processDeltaRequest, pushDeltaXds, "
                   "forceEDSPush, push loops) for every generator: silent classes send nothing and call no generator; an answered SotW "
                   "subscription change makes one generator call on exactly the added names (whole set on first request / warming / "
                   "proxyless gRPC), an answered delta request on the whole set the request subscribes to; at most one response of the "
                   "type (delta CDS: plus the forced EDS push); the nonce is recorded iff the response went out; the outcome depends on "
                   "the generator only through the recorded calls. (3) Receive / receiveDelta: no crash on any first request, a stream "
                   "without a usable node is refused, after a valid first request everything is forwarded in order. (4) Trace level: "
                   "FullStatement = the last sentence over every schedule of the SotW closed loop in which an answer is sent, has nothing "
                   "to send, or is lost (full_statement for the code in /repo, full_statement_witness_unfixed for the code before fix "
                   "6064924); delta_trace_record and dloop_quiescent_record_matches for NAMED delta types (changes attached to ACKs / "
                   "NACKs, pushes overtaking ACKs); no loop: tail_responses_bounded / dtail_responses_bounded (quiet environment). (5) Type "
                   "universe: the model's per-type predicates are proved equal (decide, table regenerated every run) to the real ones on "
                   "every type-URL constant of the tree; every constant outside the ten modelled types has the predicate profile of NDS. "
                   "The model is tied to /repo on every run by a line-by-line differential against the real functions and handlers "
                   "(14 streams, incl. exhaustive single-step and bounded multi-step enumerations, every type-URL constant through the real handlers, the real Stream / StreamDeltas loops)."),
    "level_note": ("Trusted: Lean kernel + {propext, Classical.choice, Quot.sound}; the hand-written model, tied by differential testing "
                   "(~22000 cases quick, ~350000 thorough); the verif-tagged accessor files pilot/pkg/xds/zz_verif_c04.go, zz_verif_c03.go, "
                   "zz_verif_c04b.go, pkg/xds/zz_verif_c04b.go; the history-keyed Go oracle (a second, independent statement of the clauses). "
                   "Assumed: Envoy / ztunnel is the conformant client of Protocol.lean / DeltaProtocol.lean. The closed loops (loop, dloop) "
                   "compose the real ShouldRespond / Send / shouldRespondDelta / sendDelta with a model client; the real handlers and "
                   "generators run in proc / dproc / tproc / recv on scripted request sequences and in sloop inside the real Stream / "
                   "StreamDeltas loops (20 scripted scenarios: both select arms, refused stream, transport error, failed send, stop, NACK / stale / overtaken ACK, pushes, cancelled context, EOF), not inside a generated closed loop. Not modelled: gRPC framing; the "
                   "interleaving of requests and pushes is the order of the model's event list (Go's select picks one). Not executed: "
                   "findGenerator's metadata / proxy-type keyed lookups, agentgateway collections, LastSendTime, the effect of "
                   "computeProxyState on generation; recv requests carry no names / nonce / initial versions; dloop has no "
                   "initial_resource_versions; loop / dloop run one closed loop per case (other types act through the real "
                   "ShouldRespond as environment steps). Not proved: a response bound for schedules in which the environment keeps "
                   "acting; the record of delta WILDCARD types at trace level (it follows what pushes carry: property C03; here only 'the "
                   "record is what the last response carried' and 'a removed resource leaves the record'). Observation, not a clause: a delta "
                   "re-subscription of names already on record is not answered by /repo (the protocol would allow re-sending them)."),
    "technique": "Lean 4 theorems over an exact model of the ACK/NACK state machine and of the request / push handlers + differential correspondence with the real Go functions",
    "design_ref": "DESIGN.md section 5 C04",
}
