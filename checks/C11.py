"""C11 - Config and secrets are released only to the identity entitled to them.

Proof: lean/IstioModel/C11/Theorems.lean (identity binding), ParseTheorems.lean (resource-name parsing, cache-key
injectivity), SdsTheorems.lean (SDS release soundness, non-interference over arbitrary request histories on a shared
cache), RefsTheorems.lean (how mergeGateways fills VerifiedCertificateReferences: same namespace or granted).
Tie: T-diff - the real spiffe.ParseIdentity / checkConnectionIdentity / authenticate / initProxyMetadata+authorize
(stream auth); one real ADS and delta stream per op through DiscoveryServer.Stream / StreamDeltas on a
FakeDiscoveryServer with a real peer context and fake authenticators (stream stream); credentials.ParseResourceName +
Key (stream parse); the real mergeGateways (stream refs); the real SecretGen.Generate over kube.NewFakeClient
credential controllers with a fake SubjectAccessReview authoriser and one shared XdsCache (stream sds) vs the Lean
model, same op lines, line by line.
On break: harness `oracle` evaluates the property on the real responses ("private key present => requester
entitled", answer independent of history), without the Lean model.
"""
import os

THEOREMS = ["IstioModel.C11.Theorems", "IstioModel.C11.ParseTheorems", "IstioModel.C11.SdsTheorems", "IstioModel.C11.RefsTheorems",
            "IstioModel.C11.AuthCacheTheorems", "IstioModel.C11.TimedTheorems", "IstioModel.C11.DebugTheorems"]
STREAMS = ("auth", "stream", "parse", "refs", "sds")


def _case_of(ctx, ops, i):
    lines = ctx.read_lines(ops)
    starts = [k for k, l in enumerate(lines) if l.startswith("case")]
    if i >= len(starts):
        return lines[:200]
    s = starts[i]
    e = starts[i + 1] if i + 1 < len(starts) else len(lines)
    return lines[s:e]


def _fingerprint(stream, verdict):
    """stream:clause[:branch] - the oracle names the branch through which a clause failed, so that unrelated defects
    behind one clause get different fingerprints (and replay files)."""
    toks = verdict.split()
    fp = "%s:%s" % (stream, toks[1])
    for t in toks:
        if t.startswith("branch=") or t.startswith("query="):
            fp += ":" + t.split("=", 1)[1]
    return fp


def oracle(ctx, stream, case_lines, rep, wide=True):
    """Property-level search on the implementation: first the shrunk case, then (wide) everything generated."""
    cands = []
    p = os.path.join(ctx.work, "%s.oracle.ops" % stream)
    with open(p, "w") as f:
        f.write("\n".join(case_lines) + "\n")
    cands.append(p)
    g = os.path.join(ctx.work, "%s.gen.ops" % stream)
    if wide and os.path.exists(g):
        cands.append(g)
    cdir = os.path.join(os.path.dirname(os.path.dirname(os.path.abspath(__file__))), "harness", "corpus", ctx.pid)
    if wide and os.path.isdir(cdir):
        for fn in sorted(os.listdir(cdir)):
            if fn.startswith(stream + ".") and fn.endswith(".ops"):
                cands.append(os.path.join(cdir, fn))
    for ops in cands:
        out = os.path.join(ctx.work, os.path.basename(ops) + ".verdict")
        if os.path.exists(out):
            os.remove(out)  # never read a stale verdict file
        rc, log = ctx.harness("oracle", stream, ops, out)
        if rc != 0 or not os.path.exists(out):
            continue
        for i, v in enumerate(ctx.read_lines(out)):
            if v.startswith("FAIL"):
                clause = v.split()[1]
                return (_fingerprint(stream, v),
                        "%s: clause '%s' of the property fails on the real code" % (stream, clause),
                        {"stream": stream, "ops": _case_of(ctx, ops, i), "oracle_verdict": v, "correspondence": rep})
    return None


def _go_build_retry(ctx, attempts=4):
    """go build with retries when the failure is infrastructure (shared Go build cache trimmed under us, disk full):
    such a failure says nothing about /repo and must not become a VIOLATION line."""
    import time
    for k in range(attempts):
        n = len(ctx.violations)
        if ctx.go_build():
            return True
        infra = False
        for v in ctx.violations[n:]:
            try:
                txt = open(v["path"]).read()
            except OSError:
                txt = ""
            if ".cache/go-build" in txt or "no space left on device" in txt or "cannot find package" in txt and "go-build" in txt:
                infra = True
        if not infra or k == attempts - 1:
            return False
        for v in ctx.violations[n:]:
            try:
                os.remove(v["path"])
            except OSError:
                pass
        del ctx.violations[n:]
        ctx.log("go build failed for infrastructure reasons (build cache / disk); retry %d" % (k + 1))
        time.sleep(5 * (k + 1))
    return False


def run(ctx):
    ctx.rule = ("cases = (auth) 1-6 ops: ParseIdentity / checkConnectionIdentity / authenticate / initProxyMetadata+authorize on "
                "claimed node ids, metadata namespace/service account and credential lists (well-formed, malformed, multi, empty, nil); "
                "(stream) 1-4 real ADS/delta streams: flags, peer none/plaintext/TLS, 0-3 scripted authenticators, claimed node/metadata, SDS names; "
                "(parse) ParseResourceName on names from a URI grammar with hostile segments; (refs) 1-3 Gateway configs (namespace, "
                "service-account / parent-namespace / parents annotations, 1-3 servers with credentialName(s), TLS mode, caCertCredentialName), "
                "random grants, 2-4 differently verified proxies through the real mergeGateways; (sds) a random secret world (1-2 clusters x 3 "
                "namespaces x 5 secrets + config maps, random SubjectAccessReview outcomes), 2-4 differently privileged proxies and 3-10 "
                "Generate requests (forced / incremental / nil) plus cache clears on ONE shared cache; distinct = hash of (ops, "
                "implementation outputs); non-trivial = at least one op")
    ctx.assumptions = [
        "Kubernetes RBAC (SubjectAccessReview) is an abstract, time-varying function authz(t, cluster, serviceAccount, namespace); the API server behind "
        "it is a fake authoriser (exact question, API-error, Denied / EvaluationError dressing)",
        "ReferenceGrant evaluation is the real gatewaycommon.ReferenceGrants.SecretAllowed over real gateway-api objects in the refs and stream "
        "streams (model grantEval); the theorems about mergeGateways quantify over an arbitrary SecretAllowed predicate. Which Gateway configs "
        "attach to a proxy (selectors, service instances, PILOT_SCOPE_GATEWAY_TO_NAMESPACE) is an input of the refs stream",
        "the trust domain of a credential is never compared by checkConnectionIdentity (theorem trust_domain_not_compared): a credential of any "
        "trust domain the authenticators accept binds by namespace/service account alone; which trust domains can authenticate is an input",
        "other surfaces gated only by VerifiedIdentity != nil are outside this check: debug xDS (debuggen.go: syncz/config_dump of other proxies for "
        "any verified non-system namespace), status generator (statusgen.go), ECDS wasm pull secrets (ecds.go), the API generator (apigen.go) and "
        "WorkloadEntry auto-registration (autoregistration/controller.go:277, a write surface)",
        "CredentialsController.authorizationCache is modelled (authorizeCached, clock through the verif hook VerifC11AgeAuthorizationCache): a verdict "
        "may be served for less than its TTL (60 s refusal / 300 s success) after the RBAC outcome changed - the property's 'authorised to read' holds "
        "up to that bounded staleness (authorize_bounded_staleness, revocation_effective_within_ttl)",
        "ListenerSet children: a Gateway config whose parents annotation starts with 'ListenerSet/' is trusted to name secrets of its OWN namespace for "
        "gateway proxies of the parent-namespace annotation, without a ReferenceGrant (refs_listenerset_config_namespace). This is sound under the "
        "AllowedListeners handshake: gateway_collection.go emits such configs only after gatewaycommon.NamespaceAcceptedByAllowListeners (driven in the "
        "refs stream, model nsAccepted) holds for the ListenerSet's namespace; the emission wiring itself and hand-written networking.istio.io Gateways "
        "carrying internal.istio.io/* annotations (not stripped anywhere; they expose only their author's own namespace) are assumed, not tied",
        "the service-account half of identity_binding is conditional on SERVICE_ACCOUNT metadata being sent: a client that omits it is bound by namespace only",
        "the namespace comparison of checkConnectionIdentity is skipped when the proxy claims no namespace at all (no NAMESPACE metadata and a "
        "dot-less DNS domain): identity_binding binds the namespace only when ConfigNamespace is non-empty; such a proxy is treated as namespace \"\"",
        "proxy.Metadata.ClusterID is client-claimed: RBAC is evaluated in the claimed (configured) cluster and kubernetes:// lookups fall back to the "
        "config cluster's same-named namespace without consulting the config cluster's RBAC (modelled as the code does)",
        "namespaces, service accounts and cluster ids contain no '/' (used only by the cache-key injectivity theorem; ParseIdentity guarantees it for the "
        "verified namespace)",
        "CRL / OCSP staple fields are not part of the compared view; private-key-provider configs are cryptomb / qat with one configuration each "
        "(the model's provider label stands for the real xxhash of the configuration)",
        "the secret store is immutable within a case (Secret / ConfigMap updates with cache.Clear(keys) are C06's subject); LRU eviction and the "
        "push-start token rule of lruCache.Add do not fire (synthetic increasing start times)",
        "service accounts / namespaces contain no ':' (serviceaccount.MakeUsername would alias users)",
        "never generated: a config cluster other than c1, service accounts outside {sa1, sa2} and a trust domain other than cluster.local in the sds "
        "stream, concurrent Generate calls / streams, ReferenceGrant / RBAC / Secret / proxy-label changes while a stream is alive (only Gateway changes are)",
        "feature flags are pinned at harness start (pinFeatures: UNSAFE_PILOT_ENABLE_RUNTIME_ASSERTIONS, PILOT_ENABLE_REMOTE_CREDENTIALS_CONTROLLER, "
        "XDS_AUTH, XDS_AUTH_PLAINTEXT, PILOT_ENABLE_XDS_IDENTITY_CHECK, PILOT_SCOPE_GATEWAY_TO_NAMESPACE, ENABLE_DEBUG_ENDPOINT_AUTH, "
        "ENABLE_XDS_API_GENERATOR_AUTH, DEBUG_ENDPOINT_AUTH_ALLOWED_NAMESPACES - the environment of the run cannot change the verdict) and set explicitly "
        "by the ops that exercise them; only the sds stream varies "
        "PILOT_ENABLE_REMOTE_CREDENTIALS_CONTROLLER and the mesh default ProxyConfig; the stream world's SecretGen has a nil mesh config",
        "TLS termination / certificate validation that produce the credential identity list (security.Authenticators) are inputs",
    ]
    ctx.trusted.append("pilot/pkg/xds/zz_verif_c11.go (verif-tagged accessors for initProxyMetadata, authenticate, authorize, checkConnectionIdentity)")
    ctx.trusted.append("pilot/pkg/model/zz_verif_c11.go (verif-tagged accessor for mergeGateways)")
    ctx.trusted.append("pilot/pkg/credentials/kube/zz_verif_c11.go (verif-tagged clock for the authorization cache: ages every cached verdict)")
    ctx.trusted.append("pilot/test/xds FakeDiscoveryServer and the harness' fake gRPC server streams standing in for the gRPC transport")
    ctx.trusted.append("client-go fake clientset / istio kube.NewFakeClient informers standing in for the Kubernetes API server")
    mods = [m for m in THEOREMS if os.path.exists(os.path.join(os.path.dirname(os.path.dirname(os.path.abspath(__file__))),
                                                                "lean", m.replace(".", "/") + ".lean"))]
    ctx.lean_prove(mods)
    if not ctx.build_drv():
        return
    if not _go_build_retry(ctx):
        return
    # delta debugging of a 50-op sds case costs one process pair per round: bound it (the oracle searches all cases anyway)
    _shrink = ctx.shrink
    ctx.shrink = lambda stream, case_lines, max_rounds=200: _shrink(stream, case_lines, 40)
    ctx.diff_stream("auth", ctx.n(4000, 60000), oracle=oracle)
    ctx.diff_stream("stream", ctx.n(300, 4000), oracle=oracle)
    ctx.diff_stream("parse", ctx.n(3000, 60000), oracle=oracle)
    ctx.diff_stream("refs", ctx.n(3000, 60000), oracle=oracle)
    ctx.diff_stream("sds", ctx.n(600, 8000), oracle=oracle)
    # what the real code answered, by class (generator regressions show here)
    for stream in STREAMS:
        impl = os.path.join(ctx.work, "%s.run.impl" % stream)
        if not os.path.exists(impl):
            continue
        for l in ctx.read_lines(impl):
            t = l.split(" ")
            k = t[0]
            if k == "ok" and stream == "parse":
                # ok <type> <kind> ... for prn; ok <string> for tkgr / krn / trn
                k = "ok-" + t[1] if len(t) > 3 and t[1] in ("kubernetes", "kubernetes-gateway", "configmap", "invalid") else "ok-string"
            if stream == "refs":
                k = "refs-empty" if l == "refs=-" else "refs-nonempty" if l.startswith("refs=") else k
            if stream == "stream" and k == "accepted":
                k = "accepted-" + ("unverified" if len(t) > 1 and t[1] == "none" else "verified") + ("-with-secrets" if any(x != "-" for x in t[5:] if not x.startswith("cfg=")) else "")
            if stream == "stream" and k == "debug":
                k = "debug-" + t[1] + ("-certs" if "certs=-" not in l else "")
            if stream == "auth" and k.startswith("cfg="):
                k = "conn-" + (t[1] if len(t) > 1 else "?") + ("-verified" if len(t) > 2 and t[1] == "ok" and t[2] != "none" else "")
            if stream == "sds":
                k = k.split(":")[0] if k.startswith("cached") else k
            if len(k) < 40:
                ctx.count("outcome.%s.%s" % (stream, k))
    # second line: the property oracle on every generated and corpus case, independent of the model
    for stream in STREAMS:
        files = []
        g = os.path.join(ctx.work, "%s.gen.ops" % stream)
        if os.path.exists(g):
            files.append(g)
        cdir = os.path.join(os.path.dirname(os.path.dirname(os.path.abspath(__file__))), "harness", "corpus", ctx.pid)
        if os.path.isdir(cdir):
            files += [os.path.join(cdir, fn) for fn in sorted(os.listdir(cdir)) if fn.startswith(stream + ".") and fn.endswith(".ops")]
        for ops in files:
            out = os.path.join(ctx.work, os.path.basename(ops) + ".verdict")
            if os.path.exists(out):
                os.remove(out)
            rc, log = ctx.harness("oracle", stream, ops, out)
            if rc != 0 or not os.path.exists(out):
                ctx.tie_broken("oracle-run:%s" % stream, log[-3000:])
                continue
            verdicts = ctx.read_lines(out)
            ctx.count("oracle.%s.cases" % stream, len(verdicts))
            if os.path.exists(out + ".stats"):
                for l in ctx.read_lines(out + ".stats"):
                    k, _, v = l.partition(" ")
                    if v.isdigit():
                        ctx.count("outcome.%s.%s" % (stream, k), int(v))  # e.g. outcome.stream.debug.<query>.<asker relation>.<outcome>.<data>
            for i, v in enumerate(verdicts):
                if v.startswith("FAIL"):
                    clause = v.split()[1]
                    ctx.violation(_fingerprint(stream, v),
                                  "%s: clause '%s' of the property fails on the real code" % (stream, clause),
                                  {"stream": stream, "ops": _case_of(ctx, ops, i), "oracle_verdict": v}, True)
                    break


def replay(ctx, path):
    import json
    obj = json.load(open(path))
    rep = obj.get("replay", {})
    ops = rep.get("ops") or (rep.get("extra") or {}).get("ops")
    stream = rep.get("stream") or (rep.get("extra") or {}).get("stream") or "sds"
    if not ops:
        ctx.log("replay file has no ops; re-running the full check")
        return run(ctx)
    if not (ctx.build_drv() and ctx.go_build()):
        return
    p = os.path.join(ctx.work, "replay.ops")
    with open(p, "w") as f:
        f.write("\n".join(ops) + "\n")
    ok, impl, model, log = ctx.run_pair(stream, p, "replay")
    m = ctx.compare(stream, p, impl, model)[2] if ok else None
    found = oracle(ctx, stream, ops, m.to_json() if m else None, wide=False)
    if found:
        ctx.violation(found[0], found[1], found[2], True)
    elif m is not None:
        ctx.tie_broken("correspondence:%s" % stream, "replayed case still differs", m.to_json())
    if ok:
        ctx.account(stream, p, impl)


MANIFEST = {
    "level_text": ("Lean 4 proof over an exact model of authenticate/authorize/checkConnectionIdentity/ParseIdentity/GetProxyConfigNamespace, of "
                   "SecretGen.Generate (identity check -> sdsNeedsPush -> parseResources -> filterAuthorizedResources -> incremental filter -> "
                   "cache.Get -> generate -> cache.Add) WITH the SubjectAccessReview result cache and a clock in the loop (generateT), "
                   "ParseResourceName, SecretResource.Key incl. the private-key-provider hash, the kube credential lookups, the multicluster "
                   "aggregate, the VerifiedCertificateReferences computation of mergeGateways, ReferenceGrant evaluation and the AllowedListeners "
                   "predicate: identity_binding (accepted => VerifiedIdentity is a presented credential proving - whenever claimed - the service "
                   "account and the namespace); timed_release_sound / timed_history_release_sound (over every history of clock advances, RBAC "
                   "changes, cache clears and requests by arbitrary proxies: a kubernetes:// key pair is released only if the requester's cluster "
                   "truly authorised it less than 300 s before; kubernetes-gateway:// only for an exact verified reference, read from the config "
                   "cluster only); generateT_spec (every answer equals the cache-free specification evaluated with the requester's effective - "
                   "boundedly stale - RBAC verdict: the past matters only through the requester's own cached verdict; with a constant RBAC outcome "
                   "this is sds_noninterference); refs_sound / gateway_release_bound (a verified reference exists only for the verified identity "
                   "a Gateway expects and names its own namespace or is granted; for ListenerSet children the ListenerSet's namespace, under the "
                   "AllowedListeners assumption); parse_namespace_binding, key_injective / fullKey_injective. The model is tied to /repo on every "
                   "run by a line-by-line differential against the real functions, including real ADS and delta streams kept alive over a second "
                   "request, a Gateway created or deleted mid-stream and a full push, and the debug / status / API generators asked by a second "
                   "real stream (oracle: no private key in any such response, no data for unauthenticated, other-namespace, near-miss-namespace or "
                   "namespace-less askers; model debugAnswer with theorems debug_answer_sound / debug_needs_verified_namespace); provider_release_sound "
                   "lifts the timed release property to private-key-provider cache partitions."),
    "level_note": ("Trusted: Lean kernel + {propext, Classical.choice, Quot.sound}; the hand-written model (tied by differential testing: streams auth, "
                   "stream, parse, refs, sds on the real code, ~10900 cases quick); the verif-tagged accessor files pilot/pkg/xds/zz_verif_c11.go, "
                   "pilot/pkg/model/zz_verif_c11.go and pilot/pkg/credentials/kube/zz_verif_c11.go (clock of the authorization cache); client-go "
                   "fakes and fake gRPC streams. Caveats: (1) a client that claims no namespace at all (no NAMESPACE metadata, dot-less DNS domain) "
                   "is accepted with any parsable credential and treated as namespace \"\"; likewise the service-account half of identity_binding "
                   "is vacuous when SERVICE_ACCOUNT metadata is omitted (VerifiedIdentity, and hence SDS, is still the credential's); (2) an "
                   "unauthenticated (plaintext, nil identities) stream skips the check and only secrets and debug data are withheld from it; (3) "
                   "proxy.Metadata.ClusterID is client-claimed (after ClusterAliases): RBAC is evaluated by the claimed configured cluster and "
                   "kubernetes:// lookups fall back to the config cluster's namespace of the same name without that cluster's RBAC; (4) the trust "
                   "domain of the credential is never compared (trust_domain_not_compared); (5) the debug generator (config_dump, syncz), the "
                   "status generator and the API generator are covered by an oracle clause on real streams (no private key in any response, no "
                   "data to unauthenticated or other-namespace askers) and a light model of their gating, not by theorems about their content; "
                   "an identity without namespace is refused since e4c10d7; ECDS wasm pull secrets (GetDockerCredential), SecretsFieldSelector / "
                   "ObjectFilter, handleWorkloadHealthcheck, OnConnect / WorkloadEntry auto-registration (autoregistration/controller.go:277), Gateway "
                   "attachment through InternalGatewayServiceAnnotation (how Gateway-API gateways attach), EnableStrictGatewayMerging, the CRL / OCSP "
                   "fields of the SDS response and the debug piggyback in processRequest have NO stream and NO oracle clause; (6) RBAC verdicts are cached per user: a revoked authorisation may "
                   "be honoured for < 300 s, a new one refused for < 60 s (modelled, proved and tied with a clock hook); (7) ListenerSet children "
                   "name secrets of their own namespace for the parent Gateway's proxies without a grant - sound only under the AllowedListeners "
                   "handshake of the conversion (predicate incl. matchExpressions tied; emission wiring and hand-written configs with internal "
                   "annotations assumed). Kubernetes RBAC is an abstract time-varying authz function behind a fake SubjectAccessReview authoriser; "
                   "ReferenceGrant evaluation and selector-based Gateway attachment are driven for real; private-key-provider configs (own and "
                   "mesh default) are modelled as cache partitions; which trust domains authenticate is an input. Not modelled: CRL/OCSP fields, "
                   "Secret store changes with cache.Clear(keys), LRU eviction, waypoint/ztunnel/agentgateway nodes, concurrent streams, "
                   "EnableStrictGatewayMerging. Findings fixed in /repo by this check: 9d0eb93 (private key of provider configs in debug dumps), e4c10d7 (identity without namespace "
                   "unrestricted on the xDS debug / status generators)."),
    "technique": "Lean 4 theorems over an exact model of identity binding, verified-reference computation and SDS release (with the RBAC result cache over time) + differential correspondence with the real Go functions and real xDS streams",
    "design_ref": "DESIGN.md section 5 C11",
}
