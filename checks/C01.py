"""C01 - xDS converges to the current config, independent of update history.

Proof: lean/IstioModel/C01 - exact model of the push-decision logic (per-proxy relevance filter,
per-type skip tables and *NeedsPush, proxy state refresh, push order), order-independence and
monotonicity theorems, the dependency relation `Affects` and skip soundness.
Tie: T-gen - `harness/c01 table` evaluates the REAL functions over the whole single-key domain and
writes lean/IstioModel/Generated/C01Table.lean (bit masks); GenTie*.lean prove model = table on every
row by `decide +kernel`.  T-diff stream `needs`: random multi-key requests through the real functions
(each called several times: Go map order) against the Lean model.
"""
import json
import os
import random

from checks import e2e_common

TIE_PARTS = ["IstioModel.C01.GenTie" + x for x in ("T1", "T2", "T3", "T4", "T5", "T6", "T7", "P1", "P2", "P3", "P4", "P5", "P6", "S")]
THEOREMS = TIE_PARTS + ["IstioModel.C01.GenTie", "IstioModel.C01.Theorems", "IstioModel.C01.NarrowTheorems", "IstioModel.C01.WorkloadTheorems",
                        "IstioModel.C01.ProtocolTheorems", "IstioModel.C01.ProtocolV2Theorems", "IstioModel.C01.ProtocolV2On",
                        "IstioModel.C01.ProtocolV3", "IstioModel.C01.ProtocolWds", "IstioModel.C01.Instantiation",
                        "IstioModel.C01.InstantiationExample"]
GENERATED = "IstioModel/Generated/C01Table.lean"


def gen_table(ctx):
    """T-gen: regenerate the decision table from /repo's working tree (stale file deleted first)."""
    import verif as V
    out = os.path.join(V.LEAN, GENERATED)
    os.makedirs(os.path.dirname(out), exist_ok=True)
    tmp = out + ".new"
    for p in (tmp,):
        if os.path.exists(p):
            os.remove(p)
    rc, log = ctx.harness("table", "C01Table", tmp)
    if rc != 0 or not os.path.exists(tmp):
        if os.path.exists(out):
            os.remove(out)
        ctx.tie_broken("table-generation",
                       "harness `table` failed: the real decision functions could not be evaluated over the domain\n" + log[-3000:])
        return False
    # keep the old file's mtime/content when nothing changed (lake then skips the decide +kernel re-check)
    new = open(tmp).read()
    old = open(out).read() if os.path.exists(out) else None
    if old is not None:
        os.remove(out)  # never prove against a stale table
    with open(out, "w") as f:
        f.write(new)
    os.remove(tmp)
    for line in log.split("\n"):
        if line.startswith("table:"):
            ctx.log(line)
            for kv in line.split()[1:]:
                k, _, v = kv.partition("=")
                if v.isdigit():
                    ctx.counters["table." + k] = int(v)
    rows = ctx.counters.get("table.tRows", 0) + ctx.counters.get("table.pRows", 0) + ctx.counters.get("table.sRows", 0)
    # every table row is one distinct input on which the real functions were executed (and compared in the Lean kernel)
    ctx.evaluations += rows
    for i in range(rows):
        ctx.distinct.add(b"table%d" % i)
    ctx.extra["exhaustive_table"] = {"domain": "single-key requests: kind x proxy variant x namespace class x reason class x Forced x waypoint attachment "
                                "(per-type decisions); proxy variant x kind x namespace class x scope states x self-discovery/own-service/Forced/"
                                "Address-watch (per-proxy filter); proxy variant x kind x own-namespace x Forced x ProxyUpdate (state refresh)",
                      "rows": ctx.counters.get("table.tRows", 0) + ctx.counters.get("table.pRows", 0) + ctx.counters.get("table.sRows", 0),
                      "evaluations_of_real_functions": ctx.counters.get("table.evaluations", 0),
                      "unchanged_since_last_run": old == new}
    return True


def oracle(ctx, stream, case_lines, rep):
    """Property-level search on the implementation: the shrunk case first, then everything generated."""
    cands = []
    p = os.path.join(ctx.work, "%s.oracle.ops" % stream)
    with open(p, "w") as f:
        f.write("\n".join(case_lines) + "\n")
    cands.append(p)
    g = os.path.join(ctx.work, "%s.gen.ops" % stream)
    if os.path.exists(g):
        cands.append(g)
    for ops in cands:
        found = oracle_file(ctx, stream, ops, rep)
        if found:
            return found[0]
    return None


def oracle_file(ctx, stream, ops, rep=None, limit=1):
    out = ops + ".verdict"
    if os.path.exists(out):
        os.remove(out)
    rc, log = ctx.harness("oracle", stream, ops, out)
    if rc != 0 or not os.path.exists(out):
        return []
    verdicts = ctx.read_lines(out)
    lines = ctx.read_lines(ops)
    starts = [k for k, l in enumerate(lines) if l.startswith("case")]
    found = []
    seen = set()
    for i, v in enumerate(verdicts):
        if v.startswith("FAIL") and i < len(starts):
            parts = v.split()
            clause = parts[1]
            what = parts[2] if len(parts) > 2 else ""
            fp = "%s:%s:%s" % (stream, clause, what.split(":")[0])
            if fp in seen:
                continue
            seen.add(fp)
            s = starts[i]
            e = starts[i + 1] if i + 1 < len(starts) else len(lines)
            found.append((fp, "push decision violates clause '%s' (%s) on the real code" % (clause, what),
                          {"stream": stream, "ops": lines[s:e], "oracle_verdict": v, "correspondence": rep}))
            if len(found) >= limit:
                break
    ctx.count("oracle.%s.cases" % stream, len(verdicts))
    return found


# ------------------------------------------------------------------ stream `converge` (frame-hypothesis validation)

def split_cases(lines):
    cases, cur = [], None
    for l in lines:
        if l.startswith("case"):
            cur = [l]
            cases.append(cur)
        elif cur is not None:
            cur.append(l)
    return cases


def converge_verdicts(ctx, case_list, tag):
    """Run the real servers on the given cases; returns the verdict line of each case."""
    ops = os.path.join(ctx.work, "converge.%s.ops" % tag)
    out = ops + ".verdict"
    with open(ops, "w") as f:
        for c in case_list:
            f.write("\n".join(c) + "\n")
    if os.path.exists(out):
        os.remove(out)
    # ambient histories need the ambient feature switched on when the process starts (features are read at start-up)
    env_extra = {"PILOT_ENABLE_AMBIENT": "true"} if any("ambient" in c[0].split()[5:] for c in case_list) else None
    rc, log = ctx.harness("oracle", "converge", ops, out, timeout=3000, env_extra=env_extra)
    v = ctx.read_lines(out) if os.path.exists(out) else []
    if rc != 0 or len(v) != len(case_list):
        return None, log
    return v, log


def obj_class(obj_id):
    """The class of a changed object in a fingerprint: the kind prefix of Istio config ids (`dr-a` -> `dr`); the whole id for
    the Kubernetes / Gateway API / ambient objects and the MeshConfig, whose prefixes (`k`, `kg`, `am`) say nothing."""
    return obj_id if obj_id.split("-")[0] in ("k", "kg", "am", "mesh") else obj_id.split("-")[0]


def converge_fingerprint(case, verdict):
    """Stable name of the failing input class: clause, the set of (xDS type, kind of difference) of the differing
    resources and - unless every difference is of a classified kind such as `stale-san` - the kind of the object changed
    by the step after which the difference appeared."""
    parts = verdict.split()
    clause = parts[1] if len(parts) > 1 else "?"
    kinds = set()
    if len(parts) > 2:
        for tok in parts[2].split(","):
            seg = tok.split("/")
            if len(seg) >= 3:
                kinds.add(seg[1] + ":" + tok.rsplit(":", 1)[-1])
    after = 0
    for p in parts:
        if p.startswith("after-step="):
            after = int(p.split("=")[1])
    steps = [l for l in case[1:]]
    changed = ""
    if any(k.split(":")[1] in ("stale", "missing", "extra") for k in kinds) or not kinds:
        changed = ":?"
        if 0 < after <= len(steps):
            toks = steps[after - 1].split()
            if toks[0] == "step":
                changed = ":" + toks[1] + "-" + obj_class(toks[2])
    return "converge:%s:%s%s" % (clause, "+".join(sorted(kinds)) or "-", changed)


# differences of a classified kind are recorded findings; the harness attaches the kind only under the conditions that
# make a difference THAT finding (see classify / relabel* in harness/c01/converge.go)
SOFT_KINDS = ("stale-san", "stale-mx", "stale-provider-unimported", "stale-sidecar-switches-service", "stale-dns-last-workload",
              "stale-provider-service-exported-to-nobody", "stale-store-ahead", "stale-own-endpoint-locality")
# finding 7 (DNS ServiceEntry with workloadSelector loses its last workload) under its one fingerprint, whichever stream shows it
DNS_LAST_WORKLOAD = "converge:stale-vs-cold-start:CDS:stale-dns-last-workload"
# Finding 9: the LIMIT proved by ProtocolV3.store_ahead_breaks_convergence, on the real code. A history with hold / release
# markers (event delivery parked while the stores and registries move on) that fails and CONVERGES (twice) when the very same
# history is run without the markers: the difference is caused by the delivery lag, nothing else. The
# harness half (relabelStoreAhead): the stale resources belong to a service object deleted under the hold whose own parked
# ConfigUpdate call named its key.
STORE_AHEAD = "converge:store-ahead-of-event-delivery"


def without_hold(case):
    return [case[0]] + [l for l in case[1:] if l.split()[0] not in ("hold", "release")]


# recorded findings the rebuild stream runs over: the harness sets the differences they explain aside (by CAUSE, see
# harness/c01/rebuild.go) and names them at the end of the walk; kind of the token -> fingerprint
REBUILD_KNOWN = {"stale-dns-last-workload": DNS_LAST_WORKLOAD,
                 "stale-provider-service-exported-to-nobody": "rebuild:rebuild-ne-build:LDS:provider-service-exported-to-nobody"}
# a finding that another stream of C01 already records keeps that fingerprint
SAME_FINDING = {"stale-sidecar-switches-service": "e2e:long-ne-fresh:eds-not-pushed:sidecar-switches-service-for-host"}


def converge_fingerprints(case, verdict):
    """One fingerprint per (type, kind) when every difference is of a classified kind (each is a recorded finding of its own);
    otherwise the single fingerprint of converge_fingerprint."""
    fp = converge_fingerprint(case, verdict)
    parts = fp.split(":")
    if len(parts) >= 4:
        body = fp[len("converge:" + parts[1] + ":"):]
        kinds = body.split("+")
        if all(k.count(":") == 1 and k.split(":")[1] in SOFT_KINDS for k in kinds):
            return sorted(set(SAME_FINDING.get(k.split(":")[1], "converge:%s:%s" % (parts[1], k)) for k in kinds))
    return [fp]


def converge_minimise(ctx, case, verdict, budget=8):
    """Greedy shrinking of a failing history: drop steps, then base objects, while the same clause still fails."""
    clause = verdict.split()[1]

    def hard(v):
        """(type, kind) of the differences that no recorded finding explains"""
        out = set()
        parts = v.split()
        if len(parts) > 2:
            for tok in parts[2].split(","):
                seg = tok.split("/")
                k = tok.rsplit(":", 1)[-1]
                if len(seg) >= 3 and k in ("stale", "missing", "extra"):
                    out.add((seg[1], k))
        return out
    want_hard = hard(verdict)

    def still_fails(c):
        v, _ = converge_verdicts(ctx, [c], "shrink")
        if not (v and v[0].startswith("FAIL " + clause)):
            return False, (v[0] if v else "")
        # shrinking must not turn the failure into ANOTHER one: a history whose difference no recorded finding explains
        # may not shrink into a history that only shows a recorded finding
        if want_hard and not (hard(v[0]) & want_hard):
            return False, v[0]
        return True, v[0]

    best, best_v = case, verdict
    runs = 0
    # 1. steps
    i = 1
    while i < len(best) and runs < budget:
        cand = best[:i] + best[i + 1:]
        if len(cand) > 1:
            runs += 1
            ok, v = still_fails(cand)
            if ok:
                best, best_v = cand, v
                continue
        i += 1
    # 2. base objects
    head = best[0].split()
    if len(head) >= 5 and head[4] != "-":
        objs = head[4].split(",")
        j = 0
        while j < len(objs) and runs < budget:
            cand_objs = objs[:j] + objs[j + 1:]
            cand = [" ".join(head[:4] + [",".join(cand_objs) or "-"])] + best[1:]
            runs += 1
            ok, v = still_fails(cand)
            if ok:
                objs, best, best_v = cand_objs, cand, v
                head = best[0].split()
                continue
            j += 1
    return best, best_v


def rebuild_verdicts(ctx, case_list, tag):
    ops = os.path.join(ctx.work, "rebuild.%s.ops" % tag)
    out = ops + ".verdict"
    with open(ops, "w") as f:
        for c in case_list:
            f.write("\n".join(c) + "\n")
    if os.path.exists(out):
        os.remove(out)
    rc, log = ctx.harness("oracle", "rebuild", ops, out, timeout=3000)
    v = ctx.read_lines(out) if os.path.exists(out) else []
    if rc != 0 or len(v) != len(case_list):
        return None, log
    return v, log


def after_step(verdict):
    for p in verdict.split():
        if p.startswith("after-step="):
            return int(p.split("=")[1])
    return 0


def prepare_rebuild(ctx, nsteps):
    """Stream `rebuild` (RebuildOK on the real code): walks through the grammar on one real server with connected clients;
    after every step the real generators under the server's own, partially rebuilt PushContext (without and with the
    server's xDS cache) vs under a from-scratch PushContext of the same env."""
    st = {"cases": 0, "ops": 0, "agree": True}
    ctx.streams["rebuild"] = st
    g = os.path.join(ctx.work, "rebuild.gen.ops")
    if os.path.exists(g):
        os.remove(g)
    rc, log = ctx.harness("gen", "rebuild", ctx.seed, nsteps, g)
    if rc != 0 or not os.path.exists(g):
        ctx.tie_broken("harness-gen:rebuild", log)
        return None
    return {"kind": "rebuild", "st": st, "cases": split_cases(ctx.read_lines(g))}


def run_rebuild(ctx, nsteps):
    job = prepare_rebuild(ctx, nsteps)
    execute(ctx, job)
    finish_rebuild(ctx, job)


def finish_rebuild(ctx, job):
    if job is None:
        return
    st, cases, verdicts, log = job["st"], job["cases"], job.get("verdicts"), job.get("log", "")
    if verdicts is None:
        ctx.tie_broken("stream-run:rebuild", "the rebuild oracle did not complete:\n" + log[-3000:])
        st["agree"] = False
        return
    for i, (c, v) in enumerate(zip(cases, verdicts)):
        st["cases"] += 1
        st["ops"] += len(c)
        ctx.note_case("rebuild\n" + "\n".join([c[0].split(" ", 2)[-1]] + c[1:]) + "\n" + v.split(" ||")[0], True,
                      {"stream": "rebuild", "ops": c[:8], "verdict": v[:200]} if i == 0 else None)
        if not v.startswith("FAIL"):
            continue
        ctx.log("rebuild walk %d: %s" % (i, v[:400]))
        toks = v.split()[2].split(",") if len(v.split()) > 2 else []
        kinds = set(t.rsplit(":", 1)[-1] for t in toks)
        if toks and kinds <= set(REBUILD_KNOWN):
            # the walk itself is fine; it ran over the trigger of a recorded finding (set aside by the harness, reported here)
            st["agree"] = False
            for k in sorted(kinds):
                ctx.violation(REBUILD_KNOWN[k], "rebuild walk over the trigger of a recorded finding (%s): %s" % (k, v.split(" ||")[0][:300]),
                              {"stream": "rebuild", "ops": [c[0]] + c[1:1 + after_step(v)], "oracle_verdict": v[:6000]}, True)
            continue
        clause = v.split()[1]
        # shrink: the prefix up to the failing step, then drop earlier steps while the same clause still fails at the end
        small, small_v = [c[0]] + c[1:1 + after_step(v)], v
        rv, _ = rebuild_verdicts(ctx, [small], "confirm")
        if not (rv and rv[0].startswith("FAIL " + clause)):
            ctx.count("rebuild.unreproduced-differences")
            def rerun_rebuild(case, n=after_step(v)):
                rr, _ = rebuild_verdicts(ctx, [[case[0]] + case[1:1 + n]], "rerun")
                return rr[0] if rr else None
            if not unreproduced_is_verdict(ctx, "rebuild:" + clause, c, v, rerun_rebuild):
                ctx.log("rebuild walk %d: the difference did not show again - not reported" % i)
                continue
        else:
            small_v = rv[0]
            small = [small[0]] + small[1:1 + after_step(small_v)]
            budget, chunk = 14, max(1, (len(small) - 2) // 2)
            while chunk >= 1 and budget > 0:
                j, progressed = 1, False
                while j < len(small) - 1 and budget > 0:
                    cand = small[:j] + small[j + chunk:-1] + small[-1:] if j + chunk < len(small) else small[:j] + small[-1:]
                    budget -= 1
                    cv, _ = rebuild_verdicts(ctx, [cand], "shrink")
                    if len(cand) > 1 and cv and cv[0].startswith("FAIL " + clause) and after_step(cv[0]) == len(cand) - 1:
                        small, small_v, progressed = cand, cv[0], True
                    else:
                        j += chunk
                chunk = chunk // 2 if not progressed or chunk > 1 else 0
        st["agree"] = False
        types = sorted(set(tok.split("/")[1] for tok in small_v.split()[2].replace("%2F", "/").split(",") if tok.count("/") >= 2))
        last = small[-1].split()
        changed = (last[1] + "-" + obj_class(last[2])) if last[0] == "step" else "initial"
        ctx.violation("rebuild:%s:%s:%s" % (clause, "+".join(types), changed),
                      "the server's partially rebuilt PushContext generates other resources than a from-scratch PushContext of the "
                      "same environment: " + small_v.split(" ||")[0][:300],
                      {"stream": "rebuild", "ops": small, "oracle_verdict": small_v[:6000], "original_case": c[:1 + after_step(v)]}, True)
    ctx.log("stream rebuild: %d walks, %d steps, %s" % (st["cases"], st["ops"] - st["cases"], "rebuild = build everywhere" if st["agree"] else "DIFFERENCES"))


UNREPRODUCED_RERUNS = 4


def unreproduced_is_verdict(ctx, fp, case, verdict, rerun):
    """A difference that persisted for seconds in a quiescent system but did not show again when the history was re-run is a
    race, not noise: nothing re-triggers it in production either.  The decision is taken INSIDE this run (no state is kept
    between runs): the history is run UNREPRODUCED_RERUNS more times; if the same clause fails in at least two of them
    (three failures of this history in all), or the same fingerprint was unreproduced three times in this run, it is a
    verdict; otherwise it is logged and counted."""
    clause = verdict.split()[1]
    again = 0
    for _ in range(UNREPRODUCED_RERUNS):
        rv = rerun(case)
        if rv and rv.startswith("FAIL " + clause):
            again += 1
    seen = ctx.extra.setdefault("unreproduced_fingerprints", {})
    seen[fp] = seen.get(fp, 0) + 1
    ctx.log("unreproduced difference %s: failed again in %d of %d further runs of the history; seen %d time(s) in this run"
            % (fp, again, UNREPRODUCED_RERUNS, seen[fp]))
    return again >= 2 or seen[fp] >= 3


def prepare_converge(ctx, n, sweep=False, ambient=False, slice_n=0, corpus_part=None, locality=False):
    """sweep=False: n random histories. sweep=True: every single-change history of the grammar (targeted search
    when a tie is broken; part of the thorough tier). ambient=True: histories incl. the ambient objects, with a waypoint
    proxy and a ztunnel-like delta client (PILOT_ENABLE_AMBIENT=true). corpus_part=(i, k): no generated histories - the
    i-th of k parts of the corpus (the parts run side by side). Every history is compared with a cold-started
    server after EVERY step (`coldeach`), not only at the end.  Returns the prepared job (cases generated, not yet run)."""
    import verif as V
    name = "converge-sweep" if sweep else ("converge-ambient" if ambient else ("converge-locality" if locality else "converge"))
    st = {"cases": 0, "ops": 0, "agree": True}
    case_list = []
    if corpus_part is not None:
        i, k = corpus_part
        tag = "converge-corpus%d" % i
        ctx.streams[tag] = st
        cdir = os.path.join(V.HARNESS, "corpus", ctx.pid)
        allc = []
        if os.path.isdir(cdir):
            for f in sorted(os.listdir(cdir)):
                if f.startswith("converge.") and f.endswith(".ops"):
                    allc += split_cases(ctx.read_lines(os.path.join(cdir, f)))
        case_list = [c for j, c in enumerate(allc) if j % k == i]
        ncorpus = len(case_list)
    else:
        ctx.streams[name + (("-slice" if slice_n else str(n)) if sweep else "")] = st
        ncorpus = 0
        tag = name + (str(n) if sweep and not slice_n else "")
        g = os.path.join(ctx.work, "%s.gen.ops" % tag)
        if os.path.exists(g):
            os.remove(g)
        rc, log = ctx.harness("gen", name, ctx.seed, n, g)
        if rc != 0 or not os.path.exists(g):
            ctx.tie_broken("harness-gen:converge", log)
            return None
        generated = split_cases(ctx.read_lines(g))
        if slice_n:
            # a seeded slice of the sweep (every quick run sees a different part of it as the seed varies)
            rnd = random.Random(int(ctx.seed) * 7919 + 13)
            generated = rnd.sample(generated, min(slice_n, len(generated)))
        case_list += generated
    for c in case_list:
        if "coldeach" not in c[0].split()[5:]:
            c[0] += " coldeach"
    return {"kind": "converge", "name": tag if corpus_part is not None else name, "tag": tag, "st": st, "cases": case_list,
            "ncorpus": ncorpus}


def execute(ctx, job):
    """Runs the real servers of a prepared job (may run concurrently with other jobs: own files, own processes)."""
    if job is None:
        return
    if job["kind"] == "converge":
        job["verdicts"], job["log"] = converge_verdicts(ctx, job["cases"], job["tag"])
    else:
        job["verdicts"], job["log"] = rebuild_verdicts(ctx, job["cases"], "run")


def execute_all(ctx, jobs):
    """The jobs' harness processes side by side (each mostly WAITS for quiescence); results are processed one after the
    other afterwards, so that logging, shrinking and verdicts stay sequential."""
    jobs = [j for j in jobs if j is not None]
    if len(jobs) <= 1:
        for j in jobs:
            execute(ctx, j)
        return
    import concurrent.futures
    with concurrent.futures.ThreadPoolExecutor(max_workers=len(jobs)) as ex:
        list(ex.map(lambda j: execute(ctx, j), jobs))


def run_converge(ctx, n, sweep=False, ambient=False, slice_n=0, corpus_part=None):
    job = prepare_converge(ctx, n, sweep, ambient, slice_n, corpus_part)
    execute(ctx, job)
    finish_converge(ctx, job)


def finish_converge(ctx, job):
    if job is None:
        return
    name, st, case_list, ncorpus = job["name"], job["st"], job["cases"], job["ncorpus"]
    verdicts, log = job.get("verdicts"), job.get("log", "")
    if verdicts is None:
        ctx.tie_broken("stream-run:converge", "the converge oracle did not complete:\n" + log[-3000:])
        st["agree"] = False
        return
    pushed = skipped = 0
    for i, (c, v) in enumerate(zip(case_list, verdicts)):
        st["cases"] += 1
        st["ops"] += len(c)
        ctx.note_case("converge\n" + "\n".join([c[0].split(" ", 2)[-1]] + c[1:]) + "\n" + v.split(" ||")[0], len(c) > 1,
                      {"stream": "converge", "ops": c[:8], "verdict": v[:200]} if i == ncorpus else None)
        for l in c[1:]:
            ctx.count("converge.op.%s" % " ".join(l.split()[:2]))
        for tok in v.split():
            if tok.startswith("pushed="):
                pushed += int(tok[7:])
            if tok.startswith("skipped="):
                skipped += int(tok[8:])
        if v.startswith("FAIL"):
            ctx.log("converge case %d: %s" % (i, v[:400]))
            fps = converge_fingerprints(c, v)
            small, small_v = c, v
            known = [fp for fp in fps if any(k.get("status") == "known" and k.get("fingerprint") == fp for k in ctx.known)]
            # store ahead of event delivery (any object kind): the failing history contains a hold window and the very same
            # history WITHOUT the hold / release markers converges, twice. Anything that still fails without the markers
            # stays an ordinary violation. (The harness' `stale-store-ahead` kind and the parked keys are information only.)
            if len(known) != len(fps) and any(l.split()[0] == "hold" for l in c[1:]):
                # whether the push of the earlier events runs INSIDE the hold window is a race (that is the nature of the
                # finding), so the failure need not show again on a re-run; what must hold is that the same history without the
                # markers converges - twice
                ok = 0
                for _ in range(2):
                    rv, _ = converge_verdicts(ctx, [without_hold(c)], "nohold-" + name)
                    if rv and not rv[0].startswith("FAIL"):
                        ok += 1
                if ok == 2:
                    ctx.log("converge case %d: stale under the hold window, converges without it - store ahead of event delivery" % i)
                    st["agree"] = False
                    ctx.violation(STORE_AHEAD, "event delivery held back while the stores moved on (hold / release): the long-lived "
                                  "client ends stale; the same history without the hold converges: " + v.split(" ||")[0][:300],
                                  {"stream": "converge", "ops": c, "oracle_verdict": v[:6000]}, True)
                    continue
            if len(known) != len(fps):
                # confirm that the difference is deterministic before it becomes a verdict: it must show again in BOTH of
                # two more runs of the same history; otherwise it is logged and counted, not reported (the check must
                # never be flaky; see notes/C01.md "unreproduced differences")
                again = 0
                for _ in range(2):
                    rv, _ = converge_verdicts(ctx, [c], "confirm")
                    if rv and rv[0].startswith("FAIL " + v.split()[1]):
                        again += 1
                        v = rv[0]
                    else:
                        again = 0
                        break
                if again == 0:
                    ctx.count("converge.unreproduced-differences")
                    ctx.extra.setdefault("unreproduced_differences", []).append({"ops": c, "verdict": v[:1500]})
                    def rerun_converge(case):
                        rr, _ = converge_verdicts(ctx, [case], "rerun-" + name)
                        return rr[0] if rr else None
                    if not unreproduced_is_verdict(ctx, fps[0], c, v, rerun_converge):
                        ctx.log("converge case %d: the difference did not show again in both of 2 more runs - not reported" % i)
                        continue
                    ctx.log("converge case %d: the difference showed again in later runs of the same history - reported" % i)
                # shrinking decides whether a difference after a BURST is a recorded finding (its trigger alone) or not, so it is
                # not skipped; the number of shrunk cases per run is capped (each run of a history costs seconds)
                shrunk = ctx.extra.setdefault("converge_shrunk", 0)
                if shrunk < 3:
                    ctx.extra["converge_shrunk"] = shrunk + 1
                    small, small_v = converge_minimise(ctx, c, v)
                else:
                    small, small_v = c, v
                fps = converge_fingerprints(small, small_v)
            st["agree"] = False
            for fp in fps:
                ctx.violation(fp, "after the history quiesced a long-lived client holds resources that differ from a fresh generation: "
                              + small_v.split(" ||")[0][:300],
                              {"stream": "converge", "ops": small, "oracle_verdict": small_v[:6000], "original_case": c,
                               "original_verdict": v[:3000]}, True)
    ctx.counters["%s.type-pushes" % name] = ctx.counters.get("%s.type-pushes" % name, 0) + pushed
    ctx.counters["%s.type-skips" % name] = ctx.counters.get("%s.type-skips" % name, 0) + skipped
    ctx.log("stream %s: %d histories (%d corpus), %d (proxy,type) pushes and %d skips observed, %s"
            % (name, st["cases"], ncorpus, pushed, skipped, "all converged" if st["agree"] else "DIFFERENCES"))


# Findings of this check that are not fixed in /repo (see notes/C01.md). The coordinator records them in
# known-findings.json; until the entry is there the check uses this local copy, so that exactly this input class is
# reported as KNOWN-FINDING while any other difference still fails the run.
LOCAL_KNOWN = []  # every known finding lives in /verif/known-findings.json


def run(ctx):
    for k in LOCAL_KNOWN:
        if not any(x.get("fingerprint") == k["fingerprint"] for x in ctx.known):
            ctx.known.append(k)
    ctx.rule = ("table rows = the whole finite single-key domain (every kind.Kind); needs cases = one random proxy (type, namespaces, "
                "scope/prev-scope dependencies and services, self-discovery, own services, merged gateways, waypoint key) with 2-5 random "
                "requests (0-6 keys biased to the kinds the tables mention, reasons incl. headless/service, Forced, waypoint refs, merges); "
                "distinct = hash of (ops, implementation outputs); non-trivial = at least one request")
    ctx.assumptions = [
        "feature flags at their defaults (AMBIENT_SCOPED_ADDRESS_PUSHES on, PILOT_FILTER_GATEWAY_CLUSTER_CONFIG off, "
        "PILOT_JWT_ENABLE_REMOTE_JWKS istiod, ISTIO_MULTIROOT_MESH off); a changed default shows up as a broken table tie",
        "Spec.Affects (which generator reads which kind) is written by reading the generators; it lists only dependencies the "
        "reading is sure of",
        "convergence theorems: RebuildOK, ModelFrame (ordinary reasons) and RefreshOK are hypotheses about the real generators / "
        "updateContext / computeProxyState, validated by the rebuild, edsnarrow and converge streams, not proved; a config change is "
        "one atomic step of the protocol (ProtocolV3.store_ahead_breaks_convergence shows what the split would need)",
    ]
    ctx.trusted.append("pilot/pkg/xds/zz_verif_c01.go (verif-tagged accessors for the unexported *NeedsPush, filterRelevantUpdates, "
                       "computeProxyState, pushConnection, watchedResourcesByOrder, push queue counters)")
    if not ctx.go_build():
        return
    # other checks run in the same tree and may clean harness/bin while this one is running: rebuild a vanished binary
    raw_harness = ctx.harness
    import threading
    build_lock = threading.Lock()

    def harness(*a, **k):
        with build_lock:
            if not os.path.exists(getattr(ctx, "bin_path", "")):
                ctx.go_build()
        return raw_harness(*a, **k)
    ctx.harness = harness
    # The streams on real servers (frame hypothesis, RebuildOK) only need the harness binary and mostly WAIT for quiescence:
    # their processes run side by side with the table / proof / T-diff part below; their results are processed afterwards.
    jobs = [prepare_converge(ctx, 0, corpus_part=(0, 3)), prepare_converge(ctx, 0, corpus_part=(1, 3)),
            prepare_converge(ctx, 0, corpus_part=(2, 3)),
            prepare_converge(ctx, ctx.n(16, 150)),
            # histories over the objects that decide EDS content by locality (endpoint localities, localityLbSetting, outlier
            # detection, root-namespace rules), mostly in bursts
            prepare_converge(ctx, ctx.n(6, 60), locality=True),
            prepare_converge(ctx, ctx.n(8, 40), ambient=True),
            prepare_rebuild(ctx, ctx.n(150, 1000))]
    if ctx.quick():
        jobs.append(prepare_converge(ctx, -1, sweep=True, slice_n=12))
    else:
        # the whole single-change sweep, its three bases side by side
        jobs += [prepare_converge(ctx, base, sweep=True) for base in (0, 1, 2)]
    servers = threading.Thread(target=execute_all, args=(ctx, jobs))
    servers.start()
    try:
        tie_broken = not model_part(ctx)
    finally:
        servers.join()
    for job in jobs:
        if job is not None:
            (finish_rebuild if job["kind"] == "rebuild" else finish_converge)(ctx, job)

    def found():
        return any(v["found"] and v["fingerprint"].startswith("converge") for v in ctx.violations)
    # the single-change sweep over three rich base meshes: whole in the thorough tier; base by base as the targeted search for
    # a failing input when a tie is broken (DESIGN "On break"), stopping at the first base that yields one
    for base in (0, 1, 2):
        if ctx.quick() and tie_broken and not found():
            run_converge(ctx, base, sweep=True)


def model_part(ctx):
    """Table tie, proofs, T-diff streams and the end-to-end stream. Returns False when a tie is broken."""
    if not gen_table(ctx):
        return False
    proved = ctx.lean_prove(THEOREMS)
    if not ctx.build_drv():
        return False
    n = ctx.n(3000, 60000)
    ctx.diff_stream("needs", n, oracle=oracle)
    # the narrowing of partial EDS pushes: real EdsGenerator.Generate vs Narrow.lean; oracle: a skipped cluster is unchanged
    ctx.diff_stream("edsnarrow", ctx.n(250, 2000), oracle=oracle)
    # the end-to-end stream of harness/e2e (notes/E2E.md): real server, real generators, SotW and delta clients
    e2e_common.run(ctx, "c01", ctx.n(12, 60))
    # the property-level oracle (order independence, monotonicity in keys and under merging, Forced) runs on every generated
    # case as a second line, independently of the model
    for stream in ("needs", "edsnarrow"):
        g = os.path.join(ctx.work, "%s.gen.ops" % stream)
        if os.path.exists(g):
            for f in oracle_file(ctx, stream, g, limit=3):
                ctx.violation(f[0], f[1], f[2], True)
    return bool(proved) and all(ctx.streams.get(x, {}).get("agree", True) for x in ("needs", "edsnarrow"))


def replay(ctx, path):
    obj = json.load(open(path))
    rep = obj.get("replay", {})
    if e2e_common.is_e2e_replay(rep):
        return e2e_common.replay(ctx, rep)
    ops = rep.get("ops") or (rep.get("extra") or {}).get("ops")
    stream = rep.get("stream") or (rep.get("extra") or {}).get("stream") or "needs"
    if not ops:
        ctx.log("replay file has no ops; re-running the full check")
        return run(ctx)
    if not (ctx.build_drv() and ctx.go_build()):
        return
    if stream == "rebuild":
        v, log = rebuild_verdicts(ctx, split_cases(ops), "replay")
        for line in (v or []):
            ctx.log("replay: %s" % line[:400])
            if line.startswith("FAIL"):
                ctx.violation(obj.get("fingerprint", "rebuild:replay"), "replayed walk: " + line.split(" ||")[0][:300],
                              {"stream": "rebuild", "ops": ops, "oracle_verdict": line[:6000]}, True)
        return
    if stream == "converge":
        v, log = converge_verdicts(ctx, split_cases(ops), "replay")
        if v is None:
            ctx.tie_broken("stream-run:converge", "the converge oracle did not complete:\n" + log[-3000:])
            return
        for c, line in zip(split_cases(ops), v):
            ctx.log("replay: %s" % line[:400])
            if line.startswith("FAIL"):
                for fp in converge_fingerprints(c, line):
                    ctx.violation(fp, "replayed history: " + line.split(" ||")[0][:300],
                                  {"stream": "converge", "ops": c, "oracle_verdict": line[:6000]}, True)
        return
    p = os.path.join(ctx.work, "replay.ops")
    with open(p, "w") as f:
        f.write("\n".join(ops) + "\n")
    ok, impl, model, log = ctx.run_pair(stream, p, "replay")
    _, _, m = ctx.compare(stream, p, impl, model)
    found = oracle(ctx, stream, ops, m.to_json() if m else None)
    if found:
        ctx.violation(found[0], found[1], found[2], True)
    elif m is not None:
        ctx.tie_broken("correspondence:%s" % stream, "replayed case still differs", m.to_json())
    ctx.account(stream, p, impl)


MANIFEST = {
    "level_text": ("Lean 4 proof in two layers. (a) The push-decision logic (DefaultProxyNeedsPush/filterRelevantUpdates/"
                   "proxyDependentOnConfig, SidecarScope.DependsOnConfig, the per-type skip tables and cds/eds/lds/rds/nds/ecds/sds/"
                   "pcdsNeedsPush, canSendPartialFullPushes, waypointNeedsPush, computeProxyState, pushConnection as a whole incl. the "
                   "refresh-before-filter order, the narrowing of partial EDS pushes, the WDS / WorkloadAuthorization skips, PushOrder) is "
                   "modelled branch for branch; theorems give closed forms for all key sets, independence of Go's map order, monotonicity "
                   "incl. merged requests, narrow_skip_sound, and skip_sound_table_partial (wherever the real code skips, the hand-written "
                   "dependency relation Affects is false) with skip_sound_table_witness for the one recorded exception. The model equals "
                   "the real functions on the whole single-key domain (386k evaluations regenerated from /repo on every run, decide "
                   "+kernel). (b) convergence (ProtocolV2 / ProtocolV2On): over an abstract generator, an abstract PARTIALLY REBUILT "
                   "snapshot and a decision that reads the world a proxy was last synced at, for every finite history and every "
                   "batching/interleaving of the model's steps every quiescent state has every client holding gen(build finalWorld) - "
                   "what a fresh control plane generates - provided RebuildOK (partial rebuild = from-scratch build) and SkipOK/ModelFrame "
                   "(skips are sound for the generators); skip_preserves. convergence_model instantiates the decision with the modelled "
                   "one over configuration-dependent proxy views, for histories of ordinary changes (no headless-endpoint marker "
                   "events), with the waypoint references of address events carried as a function of the announced keys (att), and "
                   "reduces multi-key merged requests to single-key decisions; convergence_model_refresh adds the computeProxyState "
                   "refresh decisions under RefreshOK; InstantiationExample applies the theorems to three concrete instances in which "
                   "every hypothesis holds: a sidecar whose clusters read a ServiceEntry and a DestinationRule, a WAYPOINT whose "
                   "clusters read an attached address (and without the references the frame is proved false: wp_frame_needs_wrefs), "
                   "and a configuration-dependent view over a genuinely partial rebuild (a Sidecar resource drops and restores the "
                   "import of a service that changes, unpushed, in between: the client ends with the current content). convergence_wds / narrowed_eq_full: AddressesUpdated as "
                   "an instance of the protocol, skip sound without frame hypothesis, per-address narrowing exact. RebuildOK, ModelFrame "
                   "and RefreshOK for the REAL code are validated, not proved: rebuild stream (real updateContext vs createNewContext "
                   "through the real generators, without and with the server's xDS cache), edsnarrow stream, and long-lived clients vs "
                   "fresh clients vs a cold-started second server after EVERY step of histories over every config kind of the quantifier "
                   "(incl. readiness, cross-registry selection, pod / WorkloadEntry relabels of connected proxies, exportTo incl. "
                   "nobody, several EndpointSlices and slice relabels, permuted event orders and object ages, MeshConfig, Secrets, "
                   "Ingress, VirtualService delegates, a second network with its gateway; bursts of 2-5 changes with gaps inside and "
                   "beyond the debounce window, slow receivers (in-flight pushes, queue merges), clients connecting while a push is "
                   "pending, event delivery held back while the stores move on)."),
    "level_note": ("Partial: the generators, the rebuilt indexes and the xDS cache are not modelled (covered by the rebuild / edsnarrow / "
                   "converge / e2e differentials: sidecar, router, waypoint, ztunnel-like clients, CDS/EDS/LDS/RDS/NDS/ECDS/SDS/WDS/WAUTH, "
                   "SotW + delta in e2e). LIMITS of the protocol theorems: (1) a config change is ONE atomic step (store write + event "
                   "to the debouncer); ProtocolV3.store_ahead_breaks_convergence proves that with the two split the same hypotheses no "
                   "longer give convergence (the defect class of /repo 32766a2). On the real code that interleaving is exercised by "
                   "converge histories with hold/release markers (ConfigUpdate callers parked through the verifGateReq hook while the "
                   "stores and registries move on; SotW clients only) - NOT by the e2e/c01 stream, which installs no gate. (2) "
                   "Step.change assumes that the key ANNOUNCED to the debouncer is the key that changed (and that a waypoint's "
                   "references travel with the address event, convergence_model's `att`, a static function of the key): the mapping "
                   "registry event -> PushRequest (EDSUpdate / UpdateServiceEndpoints / pushServiceUpdates / the ambient index) is not "
                   "modelled; known findings 3 and 7 are violations of exactly that assumption, found by the converge stream. (3) "
                   "Histories with headless-endpoint marker events are outside convergence_model (table rows + converge histories "
                   "only). (4) The model's previous scope is the scope at the last sync (istiod: before the last reset; the real filter "
                   "keeps at least as much). (5) No model of the ECDS generator's own narrowing (referenced secrets), of pushXds's "
                   "Delta.Subscribed narrowing and of WatchedResources changes: ECDS / SDS content is compared by the converge stream "
                   "(WasmPlugin filters, gateway credentials), the delta side is C03's; PCDS generates nothing at default flags; the "
                   "WDS narrowing lemma (narrowed_eq_full) is a stand-alone lemma under an idealised PerAddress, not part of the "
                   "protocol. Trusted: Lean kernel + {propext, Classical.choice, Quot.sound}; the hand-written model (tied by the "
                   "exhaustive table and the needs/edsnarrow streams); Spec.Affects (written from the generators, a cross-check of the "
                   "table only); pilot/pkg/xds/zz_verif_c01.go, zz_verif_e2e.go (request gate); feature flags at defaults; every "
                   "caller of ConfigUpdate gives a reason. Two defects found and fixed in /repo (3f2fe0c, 7cce3d7); eight known "
                   "findings (stale SAN after scale-to-zero, stale disable_mx in ambient interop, EDS not pushed when a Sidecar/VS "
                   "switches the service of a host, provider services outside the per-proxy dependency set, DNS ServiceEntry keeps the "
                   "cluster of its last removed workload - a fix for that one was reverted because an existing unit test pins the "
                   "behaviour -, provider backed by a Service created / deleted while exported to nobody, store ahead of event delivery, "
                   "a connected proxy's own locality not refreshed when its inline ServiceEntry endpoint is edited), each recognised by its "
                   "CAUSE (trigger step, objects involved, field), so that other defects with the same symptom are still violations."),
    "technique": ("Lean 4 theorems over an exact model of the push-decision logic and an abstract convergence protocol with partial "
                  "rebuild + exhaustive generated decision table (decide +kernel) + differential correspondence + "
                  "updateContext-vs-createNewContext, cache-vs-no-cache and cold-start differentials on real servers"),
    "design_ref": "DESIGN.md section 5 C01",
}
