"""C01 - xDS converges to the current config, independent of update history.

Proof: lean/IstioModel/C01 - exact model of the push-decision logic (per-proxy relevance filter,
per-type skip tables and *NeedsPush, proxy state refresh, push order), order-independence and
monotonicity theorems, the dependency relation `Affects` and skip soundness.
Tie: T-gen - `harness/c01 table` evaluates the REAL functions over the whole single-key domain and
writes lean/IstioModel/Generated/C01Table.lean (bit masks); GenTie*.lean prove model = table on every
row by `decide +kernel`.  T-diff stream `needs`: random multi-key requests through the real functions
(each called several times: Go map order) against the Lean model.
"""
import os

TIE_PARTS = ["IstioModel.C01.GenTie" + x for x in ("T1", "T2", "T3", "T4", "T5", "T6", "T7", "P1", "P2", "P3", "P4", "P5", "P6", "S")]
THEOREMS = TIE_PARTS + ["IstioModel.C01.GenTie"]
GENERATED = "IstioModel/Generated/C01Table.lean"


def gen_table(ctx):
    """T-gen: regenerate the decision table from /repo's working tree (stale file deleted first)."""
    import verif as V
    out = os.path.join(V.LEAN, GENERATED)
    os.makedirs(os.path.dirname(out), exist_ok=True)
    tmp = out + ".new"
    for p in (tmp,):
        if os.path.exists(p):
            os.remove(p)
    rc, log = ctx.harness("table", "C01Table", tmp)
    if rc != 0 or not os.path.exists(tmp):
        if os.path.exists(out):
            os.remove(out)
        ctx.tie_broken("table-generation",
                       "harness `table` failed: the real decision functions could not be evaluated over the domain\n" + log[-3000:])
        return False
    # keep the old file's mtime/content when nothing changed (lake then skips the decide +kernel re-check)
    new = open(tmp).read()
    old = open(out).read() if os.path.exists(out) else None
    if old is not None:
        os.remove(out)  # never prove against a stale table
    with open(out, "w") as f:
        f.write(new)
    os.remove(tmp)
    for line in log.split("\n"):
        if line.startswith("table:"):
            ctx.log(line)
            for kv in line.split()[1:]:
                k, _, v = kv.partition("=")
                if v.isdigit():
                    ctx.counters["table." + k] = int(v)
    ctx.exhaustive = {"domain": "single-key requests: kind x proxy variant x namespace class x reason class x Forced x waypoint attachment "
                                "(per-type decisions); proxy variant x kind x namespace class x scope states x self-discovery/own-service/Forced/"
                                "Address-watch (per-proxy filter); proxy variant x kind x own-namespace x Forced x ProxyUpdate (state refresh)",
                      "rows": ctx.counters.get("table.tRows", 0) + ctx.counters.get("table.pRows", 0) + ctx.counters.get("table.sRows", 0),
                      "evaluations_of_real_functions": ctx.counters.get("table.evaluations", 0),
                      "unchanged_since_last_run": old == new}
    return True


def oracle(ctx, stream, case_lines, rep):
    """Property-level search on the implementation: the shrunk case first, then everything generated."""
    cands = []
    p = os.path.join(ctx.work, "%s.oracle.ops" % stream)
    with open(p, "w") as f:
        f.write("\n".join(case_lines) + "\n")
    cands.append(p)
    g = os.path.join(ctx.work, "%s.gen.ops" % stream)
    if os.path.exists(g):
        cands.append(g)
    for ops in cands:
        found = oracle_file(ctx, stream, ops, rep)
        if found:
            return found[0]
    return None


def oracle_file(ctx, stream, ops, rep=None, limit=1):
    out = ops + ".verdict"
    if os.path.exists(out):
        os.remove(out)
    rc, log = ctx.harness("oracle", stream, ops, out)
    if rc != 0 or not os.path.exists(out):
        return []
    verdicts = ctx.read_lines(out)
    lines = ctx.read_lines(ops)
    starts = [k for k, l in enumerate(lines) if l.startswith("case")]
    found = []
    seen = set()
    for i, v in enumerate(verdicts):
        if v.startswith("FAIL") and i < len(starts):
            parts = v.split()
            clause = parts[1]
            what = parts[2] if len(parts) > 2 else ""
            fp = "%s:%s:%s" % (stream, clause, what.split(":")[0])
            if fp in seen:
                continue
            seen.add(fp)
            s = starts[i]
            e = starts[i + 1] if i + 1 < len(starts) else len(lines)
            found.append((fp, "push decision violates clause '%s' (%s) on the real code" % (clause, what),
                          {"stream": stream, "ops": lines[s:e], "oracle_verdict": v, "correspondence": rep}))
            if len(found) >= limit:
                break
    ctx.count("oracle.%s.cases" % stream, len(verdicts))
    return found


def run(ctx):
    ctx.rule = ("table rows = the whole finite single-key domain (every kind.Kind); needs cases = one random proxy (type, namespaces, "
                "scope/prev-scope dependencies and services, self-discovery, own services, merged gateways, waypoint key) with 2-5 random "
                "requests (0-6 keys biased to the kinds the tables mention, reasons incl. headless/service, Forced, waypoint refs, merges); "
                "distinct = hash of (ops, implementation outputs); non-trivial = at least one request")
    ctx.assumptions = [
        "feature flags at their defaults (AMBIENT_SCOPED_ADDRESS_PUSHES on, PILOT_FILTER_GATEWAY_CLUSTER_CONFIG off, "
        "PILOT_JWT_ENABLE_REMOTE_JWKS istiod, ISTIO_MULTIROOT_MESH off); a changed default shows up as a broken table tie",
        "Spec.Affects (which generator reads which kind) is written by reading the generators; it lists only dependencies the "
        "reading is sure of",
    ]
    ctx.trusted.append("pilot/pkg/xds/zz_verif_c01.go (verif-tagged accessors for the unexported *NeedsPush, filterRelevantUpdates, "
                       "computeProxyState, pushConnection, watchedResourcesByOrder, push queue counters)")
    if not ctx.go_build():
        return
    if not gen_table(ctx):
        return
    proved = ctx.lean_prove(THEOREMS)
    if not ctx.build_drv():
        return
    n = ctx.n(3000, 60000)
    ctx.diff_stream("needs", n, oracle=oracle)
    if not proved and not ctx.violations:
        # a proof (e.g. a table tie) broke while the stream still agrees: property-level search
        g = os.path.join(ctx.work, "needs.gen.ops")
        if os.path.exists(g):
            for f in oracle_file(ctx, "needs", g):
                ctx.violation(f[0], f[1], f[2], True)


def replay(ctx, path):
    import json
    obj = json.load(open(path))
    rep = obj.get("replay", {})
    ops = rep.get("ops") or (rep.get("extra") or {}).get("ops")
    stream = rep.get("stream") or (rep.get("extra") or {}).get("stream") or "needs"
    if not ops:
        ctx.log("replay file has no ops; re-running the full check")
        return run(ctx)
    if not (ctx.build_drv() and ctx.go_build()):
        return
    p = os.path.join(ctx.work, "replay.ops")
    with open(p, "w") as f:
        f.write("\n".join(ops) + "\n")
    ok, impl, model, log = ctx.run_pair(stream, p, "replay")
    _, _, m = ctx.compare(stream, p, impl, model)
    found = oracle(ctx, stream, ops, m.to_json() if m else None)
    if found:
        ctx.violation(found[0], found[1], found[2], True)
    elif m is not None:
        ctx.tie_broken("correspondence:%s" % stream, "replayed case still differs", m.to_json())
    ctx.account(stream, p, impl)


MANIFEST = {
    "level_text": "in progress",
    "level_note": "in progress",
    "technique": "Lean 4 theorems over an exact model of the push-decision logic + exhaustive generated decision table + differential correspondence",
    "design_ref": "DESIGN.md section 5 C01",
}
