"""C07 - a proxy only ever receives services visible to and imported by its namespace.

Proof: lean/IstioModel/C07/*Theorems.lean (hostname algebra, visibility, sidecar scope).
Tie: T-diff - the real host.Name functions, a real PushContext and the real SidecarScope vs the
Lean model, same op lines, line by line (streams host, vis, scope).
On break: harness `oracle` evaluates the property's clauses directly on the real code with an
independent Go visibility/import oracle.
"""
import os

THEOREMS = ["IstioModel.C07.HostTheorems", "IstioModel.C07.VisTheorems", "IstioModel.C07.VSTheorems", "IstioModel.C07.ScopeTheorems", "IstioModel.C07.PortsTheorems",
            "IstioModel.C07.RuleTheorems", "IstioModel.C07.PolicyTheorems", "IstioModel.C07.ValidateTheorems",
            "IstioModel.C07.IndexTheorems", "IstioModel.C07.XdsTheorems"]
STREAMS = [("host", 3000, 60000), ("vval", 2000, 40000), ("vis", 1500, 30000), ("sev", 300, 6000), ("scope", 2500, 50000)]
REPLAYING = [False]  # a replay only looks at the replayed case (no scan of a generated file left by an earlier run)


def oracle(ctx, stream, case_lines, rep):
    """Property-level search on the implementation: first the shrunk case, then everything generated."""
    cands = []
    p = os.path.join(ctx.work, "%s.oracle.ops" % stream)
    with open(p, "w") as f:
        f.write("\n".join(case_lines) + "\n")
    cands.append(p)
    g = os.path.join(ctx.work, "%s.gen.ops" % stream)
    if os.path.exists(g) and not REPLAYING[0]:
        cands.append(g)
    for ops in cands:
        out = ops + ".verdict"
        if os.path.exists(out):
            os.remove(out)
        rc, log = ctx.harness("oracle", stream, ops, out)
        if rc != 0 or not os.path.exists(out):
            continue
        verdicts = ctx.read_lines(out)
        lines = ctx.read_lines(ops)
        starts = [k for k, l in enumerate(lines) if l.startswith("case")]
        known = {k.get("fingerprint") for k in ctx.known if k.get("status") == "known"}
        for i, v in enumerate(verdicts):
            if v.startswith("FAIL") and i < len(starts):
                clause = v.split()[1]
                if "%s:%s" % (stream, clause) in known:
                    # a listed known finding elsewhere in the file is not the failing input of THIS break
                    continue
                s = starts[i]
                e = starts[i + 1] if i + 1 < len(starts) else len(lines)
                return ("%s:%s" % (stream, clause),
                        "C07 %s: clause '%s' of the property fails on the real code" % (stream, clause),
                        {"stream": stream, "ops": lines[s:e], "oracle_verdict": v, "correspondence": rep})
    return None


def run_oracle_over(ctx, stream, ops):
    """Second line: the independent oracle over a whole ops file (large files in parallel chunks of whole cases)."""
    from concurrent.futures import ThreadPoolExecutor
    lines = ctx.read_lines(ops)
    starts = [k for k, l in enumerate(lines) if l.startswith("case")]
    chunk = 2500
    parts = []
    if len(starts) > 2 * chunk:
        for n, i in enumerate(range(0, len(starts), chunk)):
            s = starts[i]
            e = starts[i + chunk] if i + chunk < len(starts) else len(lines)
            p = "%s.part%d" % (ops, n)
            with open(p, "w") as f:
                f.write("\n".join(lines[s:e]) + "\n")
            parts.append(p)
    else:
        parts = [ops]

    def one(p):
        out = p + ".verdict"
        for stale in (out, out + ".counters"):
            if os.path.exists(stale):
                os.remove(stale)
        rc, log = ctx.harness("oracle", stream, p, out, timeout=5400)
        if rc != 0 or not os.path.exists(out):
            return None, log, {}
        counters = {}
        if os.path.exists(out + ".counters"):
            for l in ctx.read_lines(out + ".counters"):
                f = l.split()
                if len(f) == 2:
                    counters[f[0]] = int(f[1])
        return ctx.read_lines(out), log, counters

    with ThreadPoolExecutor(max_workers=4) as ex:
        results = list(ex.map(one, parts))
    verdicts = []
    for p, (v, log, counters) in zip(parts, results):
        if v is None:
            ctx.tie_broken("oracle-run:%s" % stream, log)
            return
        verdicts += v
        # branch counters: how often the generated cases reached the rare paths (exact-host fast path and its hidden-entry
        # fallback, Kubernetes replacement, root-namespace DestinationRule, several candidate namespaces, incremental updates)
        # and contained the rarer input shapes
        for k, n in counters.items():
            ctx.count(k, n)
        if p != ops:
            for f in (p, p + ".verdict", p + ".verdict.counters"):
                if os.path.exists(f):
                    os.remove(f)
    ctx.count("oracle.%s.cases" % stream, len(verdicts))
    if len(verdicts) != len(starts):
        ctx.tie_broken("oracle-run:%s" % stream, "the oracle answered %d cases of %d" % (len(verdicts), len(starts)))
        return
    for i, v in enumerate(verdicts):
        if v.startswith("FAIL") and i < len(starts):
            clause = v.split()[1]
            s = starts[i]
            e = starts[i + 1] if i + 1 < len(starts) else len(lines)
            ctx.violation("%s:%s" % (stream, clause),
                          "C07 %s: clause '%s' of the property fails on the real code" % (stream, clause),
                          {"stream": stream, "ops": lines[s:e], "oracle_verdict": v}, True)


# Known finding of C07 (listed for the coordinator in notes/C07.md; a local copy is used until
# known-findings.json carries the same fingerprint - BUILDING.md "test with a local copy of the entry").
LOCAL_KNOWN = []  # every known finding lives in /verif/known-findings.json


def add_local_known(ctx):
    have = {k.get("fingerprint") for k in ctx.known}
    for k in LOCAL_KNOWN:
        if k["fingerprint"] not in have:
            ctx.known.append(k)


def private_bin(ctx):
    """Other runs (other checks, a second run of this one) rebuild harness/bin concurrently and remove the
    binary first; run from a private copy so that this run never loses its executable half way."""
    import atexit
    import shutil
    src = getattr(ctx, "bin_path", None)
    if not src or not os.path.exists(src):
        return
    dst = os.path.join(ctx.work, "c07.bin.%d" % os.getpid())
    shutil.copy2(src, dst)
    if ".alt-" in os.path.basename(src):
        os.remove(src)  # scratch-worktree builds are not kept in harness/bin
    ctx.bin_path = dst
    atexit.register(lambda: os.path.exists(dst) and os.remove(dst))


def run(ctx):
    add_local_known(ctx)
    ctx.rule = ("host: 1-6 hostname pairs per case over labels {a,b,c,com,foo,svc,x-y,a1} with `*.`, `*`, bare `*`, `**.`, inner-star, "
                "leading-dot and empty forms, second name derived from the first (parent wildcard, added label, dropped wildcard). "
                "vis: 2-12 services over 2-4 namespaces, every exportTo form (unset, *, ., ~, one/two namespaces, own namespace, "
                ".+namespace, and the mixtures ~+namespace, *+~), every mesh default (nil, *, ., namespace, .+namespace, ~, empty list), "
                "serviceEntryVisibility cap on/off; queries exported(ns), visible(svc, ns), index(hostname). "
                "scope: the same meshes with colliding hostnames across and inside namespaces, Kubernetes and ServiceEntry provenance, aliases, "
                "0-4 VirtualServices (wildcard hosts, exportTo forms, gateways, gateway semantics, sourceNamespace matches, ports), "
                "0-4 DestinationRules (wildcard hosts, exportTo forms, workloadSelector), 0-3 Sidecars (root namespace, workloadSelector, "
                "0-3 egress listeners, port-bound / HTTP_PROXY, host forms ns/h, */h, ./h, ns/*, */*, wildcards, ~ns/h, ~/h, ~./h, ~*/h, illegal), "
                "flags UnifiedSidecarScoping / SidecarPickBestServiceNamespace / EnhancedDestinationRuleMerge on and off; one SidecarScope "
                "query per namespace (+ a foreign one), gateway scopes, and for one sidecar proxy the CDS output (incl. subset clusters) and the EDS answers for "
                "every hostname of the mesh, for one router proxy the CDS output and VirtualServicesForGateway for named gateways, the merged (delegate) VirtualServices; "
                "serviceEntryVisibility policies over namespace labels; ExternalName (alias) services with chains and loops, mirror/tls destinations, TCP/TLS ports, VIPs; "
                "lazy / concurrent scope conversion toggled; traffic policies (connection pools, load balancers, port-level settings, backend-policy rules) with a "
                "distinct connection limit per place; incremental pushes (update / delete of one object, next PushContext derived from the current one); "
                "delegating routes with a root sourceNamespace match; bare-hostname DestinationRule lookups; Router CDS with the gateway cluster filter; "
                "EDS for subset clusters; sidecar LDS listener names and RDS virtual host names; TCP/TLS/HTTP_PROXY/unix-socket egress listeners, short names, waypoints. "
                "vval: 3-6 exportTo lists per case over keywords, namespaces and malformed labels for ServiceEntry / VirtualService / DestinationRule (with selector). "
                "sev: 1-3 ServiceEntries with 1-3 hosts over labelled namespaces and serviceEntryVisibility policies (matchLabels, matchExpressions). "
                "distinct = hash of (ops, implementation outputs); non-trivial = at least one op")
    ctx.assumptions = [
        "hostnames and namespaces are ASCII (Go compares bytes, the model compares characters)",
        "short names in VirtualService / DestinationRule are resolved as <name>.<namespace>.svc.cluster.local (resolveShort; domain cluster.local only)",
        "services have pairwise distinct (creationTime, name, namespace) sort keys (SortServicesByCreationTime is then a total order; multi-host ServiceEntry ties belong to C17)",
        "at most one Kubernetes service per hostname in generated meshes (the oracle's Kubernetes tie-break clause names a single expected namespace); pickBestVisibleNamespace itself is order independent for all inputs (pickBest_order_independent, /repo d30d8f4)",
        "ExternalName services have pairwise distinct hostnames (two alias services on one hostname: 'behavior is undefined' in resolveServiceAliases)",
        "the proxy namespace is not one of the exportTo keywords '.', '~' (ValidNs) and no VirtualService lives in a namespace named '*'",
        "completeness is stated for export sets in which '~' does not stand next to a namespace or '.' (ExportWF); for a ServiceEntry that passed admission validation this is proved "
        "(exported_complete_validated, validator tied by the vval stream); Kubernetes Service annotations are not validated (witness exported_mixed_none_witness)",
        "every generated connection limit is written in exactly one place of one DestinationRule (the oracle identifies the owner of a policy value by it)",
    ]
    ctx.trusted.append("pilot/pkg/model/zz_verif_c07.go (verif-tagged accessors: servicesExportedToNamespace, serviceExportTo, convertToSidecarScope, "
                       "SidecarScope.destinationRules, PushContext.destinationRule, ConsolidatedDestRule.exportTo, ConsolidatedDestRule.from)")
    ctx.trusted.append("the differential runs the xDS generators with model.DisabledCache and the state-of-the-world CDS; the cached generators (real XdsCache, proxies of all "
                       "namespaces served twice in sequence) and delta CDS (BuildDeltaClusters on the same connection after every update) are covered by the oracle only: "
                       "cached = uncached output; a delta never leaves the proxy with a cluster of a service outside its scope")
    ctx.trusted.append("harness ServiceEntry environment of the sev stream (memory config store, fake Kubernetes client, multicluster controller) and the carrier objects of the vval stream")
    ctx.trusted.append("harness service registry / config store construction (model.NewEnvironment + FakeStore + VirtualServiceController + PushContext.InitContext), "
                       "closed-form index model (public / exportedToNamespace / HostnameAndNamespace as filters of the creation-ordered list)")
    proved = ctx.lean_prove(THEOREMS)
    if not ctx.build_drv():
        return
    if not ctx.go_build():
        return
    private_bin(ctx)
    for stream, q, t in STREAMS:
        ctx.diff_stream(stream, ctx.n(q, t), oracle=oracle)
    cdir = os.path.join(os.path.dirname(os.path.dirname(os.path.abspath(__file__))), "harness", "corpus", ctx.pid)
    for stream, q, t in STREAMS:
        g = os.path.join(ctx.work, "%s.gen.ops" % stream)
        if os.path.exists(g):
            run_oracle_over(ctx, stream, g)
        if os.path.isdir(cdir):
            for f in sorted(os.listdir(cdir)):
                if f.startswith(stream + ".") and f.endswith(".ops"):
                    tmp = os.path.join(ctx.work, "corpus." + f)
                    with open(os.path.join(cdir, f)) as fi, open(tmp, "w") as fo:
                        fo.write(fi.read())
                    run_oracle_over(ctx, stream, tmp)


def replay(ctx, path):
    import json
    obj = json.load(open(path))
    rep = obj.get("replay", {})
    ops = rep.get("ops") or (rep.get("extra") or {}).get("ops")
    stream = rep.get("stream") or (rep.get("extra") or {}).get("stream") or "scope"
    if not ops:
        ctx.log("replay file has no ops; re-running the full check")
        return run(ctx)
    add_local_known(ctx)
    if not (ctx.build_drv() and ctx.go_build()):
        return
    private_bin(ctx)
    REPLAYING[0] = True
    p = os.path.join(ctx.work, "replay.ops")
    with open(p, "w") as f:
        f.write("\n".join(ops) + "\n")
    ok, impl, model, log = ctx.run_pair(stream, p, "replay")
    _, _, m = ctx.compare(stream, p, impl, model)
    found = oracle(ctx, stream, ops, m.to_json() if m else None)
    if found:
        ctx.violation(found[0], found[1], found[2], True)
    elif m is not None:
        ctx.tie_broken("correspondence:%s" % stream, "replayed case still differs", m.to_json())
    ctx.account(stream, p, impl)


MANIFEST = {
    "level_text": ("Lean 4 proof over an exact executable model of host.Name.Matches/SubsetOf, PushContext.serviceExportTo / IsServiceVisible / "
                   "servicesExportedToNamespace and the service indexes, sidecar.go (egress host parsing, hostClassification, selectServices in both "
                   "UnifiedSidecarScoping branches, alias/port trimming, servicesForExactHosts, collectImportedServices with pickFirst/pickBestVisibleNamespace, "
                   "appendSidecarServices with servicesByHostname, default and gateway scopes, Sidecar selection), SelectVirtualServices, VirtualServicesForGateway, "
                   "delegate merging incl. sourceNamespace match merging, the DestinationRule index / merge (with traffic policies, subsets, backend-policy rules) / lookup, "
                   "serviceEntryVisibility policies, exportTo admission validation, GatewayServices, and the names sidecar LDS / RDS derive from a scope. "
                   "Theorems (all inputs, no size bound): hostname algebra incl. subsetOf_iff_denote_subset and matches_iff_denote_intersect; visible_iff "
                   "(IsServiceVisible = documented exportTo semantics for every default/cap), exported_sound/complete, exported_complete_validated; scope_sound (every service of "
                   "SidecarScope.services is a mesh service Visible to the proxy namespace and Imported by the scope); scope_complete / default_scope_complete "
                   "(visible + matched by a port-unrestricted egress host => delivered or displaced by a visible same-hostname winner); exact_fastpath_parity; "
                   "vs_export_sound, gateway_vs_export_sound, delegate_export_sound, mergeSrcNs_sound; dr_export_sound / scope_dr_export_sound (a rule not exported to the proxy "
                   "namespace is never selected), dr_policy_provenance / dr_policy_export_sound / clusterPool_owner (no value of a consolidated trafficPolicy comes from a rule outside "
                   "its `from`); gateway_scope_sound, gateway_filtered_sound; pickBest_order_independent; scope_alias_sound / scope_alias_backed, scope_complete_unique_ports, "
                   "scope_ports_sound, listener_services_sound, vs_select_sound; servicesByHostname_is_index; rds_names_sound, lds_keys_sound; visibilityFor_spec; "
                   "validated_none_alone / validated_star_alone. Five defects found by the proof obligations / review and reproduced on the real code were "
                   "repaired in /repo (F7 VirtualService-destination leak, F10 exact-host fast path dropping a service shadowed by a hidden duplicate, F11 aliases of "
                   "ExternalName services not exported to the proxy namespace, F12 defaultDestinationRuleExportTo namespace lists ignored, F13 backend-policy merge writing into the "
                   "user rule so that its port-level settings reached namespaces the backend rule is not exported to); the old behaviours are kept "
                   "as theorems (scope_sound_fails_unfixed, exact_path_incomplete_witness_unfixed, alias_leak_witness_unfixed, "
                   "dr_default_namespace_list_witness_unfixed) and as corpus cases; the legacy DestinationRule merge flag is a listed known finding. "
                   "The model is tied to /repo on every run by a line-by-line differential against a real PushContext / SidecarScope / serviceentry controller / validators / "
                   "CDS, LDS, RDS and EDS generators (also across incremental pushes), and an independent Go oracle states the property on the real output."),
    "level_note": ("Trusted: Lean kernel + {propext, Classical.choice, Quot.sound}; the hand-written model (differential testing on ~9300 cases quick / 186000 thorough: "
                   "host pairs, exportTo validation, visibility queries, ServiceEntry visibility attach point, SidecarScope services / per-listener services and VirtualServices / "
                   "DestinationRules with subsets and policies / servicesByHostname, CDS cluster names and connection limits of sidecar and router proxies (with and without the gateway "
                   "cluster filter), EDS answers incl. subset clusters, LDS listener names, RDS virtual host names, incremental pushes); "
                   "pilot/pkg/model/zz_verif_c07.go; the harness environment construction. Not modelled: initServiceRegistry loop structure (closed-form index model), "
                   "LDS filter chains and RDS route actions / domains (observed by the oracle only), match fields of delegation other than sourceNamespace, "
                   "EnvoyFilter / extension-provider services of the gateway filter; of a DestinationRule's trafficPolicy only connection pool, load balancer, port-level "
                   "settings and subsets are generated and modelled (tls, outlierDetection, tunnel, proxyProtocol, retryBudget are NOT: a provenance defect confined to those fields "
                   "is not seen); delta CDS and cached xDS are judged by the oracle only (no model), delta/full differences inside the scope are counted, not judged (O10); "
                   "waypoint CDS is not built. "
                   "List-level fast-path parity is false (witnesses fastpath_list_parity_fails_witness, fastpath_duplicate_key_witness); legacy DestinationRule merge "
                   "(flag off) violates export soundness (dr_export_legacy_merge_witness, known finding)."),
    "technique": "Lean 4 theorems over an exact model of visibility / sidecar scoping + differential correspondence with the real PushContext, SidecarScope, validators and xDS generators + independent property oracle",
    "design_ref": "DESIGN.md section 5 C07",
}
