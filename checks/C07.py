"""C07 - a proxy only ever receives services visible to and imported by its namespace.

Proof: lean/IstioModel/C07/*Theorems.lean (hostname algebra, visibility, sidecar scope).
Tie: T-diff - the real host.Name functions, a real PushContext and the real SidecarScope vs the
Lean model, same op lines, line by line (streams host, vis, scope).
On break: harness `oracle` evaluates the property's clauses directly on the real code with an
independent Go visibility/import oracle.
"""
import os

THEOREMS = ["IstioModel.C07.HostTheorems", "IstioModel.C07.VisTheorems", "IstioModel.C07.ScopeTheorems",
            "IstioModel.C07.RuleTheorems"]
STREAMS = [("host", 3000, 60000), ("vis", 1500, 30000), ("scope", 3000, 60000)]


def oracle(ctx, stream, case_lines, rep):
    """Property-level search on the implementation: first the shrunk case, then everything generated."""
    cands = []
    p = os.path.join(ctx.work, "%s.oracle.ops" % stream)
    with open(p, "w") as f:
        f.write("\n".join(case_lines) + "\n")
    cands.append(p)
    g = os.path.join(ctx.work, "%s.gen.ops" % stream)
    if os.path.exists(g):
        cands.append(g)
    for ops in cands:
        out = ops + ".verdict"
        if os.path.exists(out):
            os.remove(out)
        rc, log = ctx.harness("oracle", stream, ops, out)
        if rc != 0 or not os.path.exists(out):
            continue
        verdicts = ctx.read_lines(out)
        lines = ctx.read_lines(ops)
        starts = [k for k, l in enumerate(lines) if l.startswith("case")]
        for i, v in enumerate(verdicts):
            if v.startswith("FAIL") and i < len(starts):
                clause = v.split()[1]
                s = starts[i]
                e = starts[i + 1] if i + 1 < len(starts) else len(lines)
                return ("%s:%s" % (stream, clause),
                        "C07 %s: clause '%s' of the property fails on the real code" % (stream, clause),
                        {"stream": stream, "ops": lines[s:e], "oracle_verdict": v, "correspondence": rep})
    return None


def run_oracle_over(ctx, stream, ops):
    """Second line: the independent oracle over a whole ops file."""
    out = ops + ".verdict"
    if os.path.exists(out):
        os.remove(out)
    rc, log = ctx.harness("oracle", stream, ops, out)
    if rc != 0 or not os.path.exists(out):
        ctx.tie_broken("oracle-run:%s" % stream, log)
        return
    verdicts = ctx.read_lines(out)
    ctx.count("oracle.%s.cases" % stream, len(verdicts))
    lines = ctx.read_lines(ops)
    starts = [k for k, l in enumerate(lines) if l.startswith("case")]
    for i, v in enumerate(verdicts):
        if v.startswith("FAIL") and i < len(starts):
            clause = v.split()[1]
            s = starts[i]
            e = starts[i + 1] if i + 1 < len(starts) else len(lines)
            ctx.violation("%s:%s" % (stream, clause),
                          "C07 %s: clause '%s' of the property fails on the real code" % (stream, clause),
                          {"stream": stream, "ops": lines[s:e], "oracle_verdict": v}, True)


def run(ctx):
    ctx.rule = ("host: 1-6 hostname pairs per case over labels {a,b,c,com,foo,svc,x-y,a1} with `*.`, `*`, bare `*`, `**.`, inner-star, "
                "leading-dot and empty forms, second name derived from the first (parent wildcard, added label, dropped wildcard); "
                "distinct = hash of (ops, implementation outputs); non-trivial = at least one op")
    ctx.assumptions = [
        "hostnames are ASCII (Go compares bytes, the model compares characters)",
    ]
    proved = ctx.lean_prove(THEOREMS)
    if not ctx.build_drv():
        return
    if not ctx.go_build():
        return
    for stream, q, t in STREAMS:
        ctx.diff_stream(stream, ctx.n(q, t), oracle=oracle)
    cdir = os.path.join(os.path.dirname(os.path.dirname(os.path.abspath(__file__))), "harness", "corpus", ctx.pid)
    for stream, q, t in STREAMS:
        g = os.path.join(ctx.work, "%s.gen.ops" % stream)
        if os.path.exists(g):
            run_oracle_over(ctx, stream, g)
        if os.path.isdir(cdir):
            for f in sorted(os.listdir(cdir)):
                if f.startswith(stream + ".") and f.endswith(".ops"):
                    tmp = os.path.join(ctx.work, "corpus." + f)
                    with open(os.path.join(cdir, f)) as fi, open(tmp, "w") as fo:
                        fo.write(fi.read())
                    run_oracle_over(ctx, stream, tmp)


def replay(ctx, path):
    import json
    obj = json.load(open(path))
    rep = obj.get("replay", {})
    ops = rep.get("ops") or (rep.get("extra") or {}).get("ops")
    stream = rep.get("stream") or (rep.get("extra") or {}).get("stream") or "scope"
    if not ops:
        ctx.log("replay file has no ops; re-running the full check")
        return run(ctx)
    if not (ctx.build_drv() and ctx.go_build()):
        return
    p = os.path.join(ctx.work, "replay.ops")
    with open(p, "w") as f:
        f.write("\n".join(ops) + "\n")
    ok, impl, model, log = ctx.run_pair(stream, p, "replay")
    _, _, m = ctx.compare(stream, p, impl, model)
    found = oracle(ctx, stream, ops, m.to_json() if m else None)
    if found:
        ctx.violation(found[0], found[1], found[2], True)
    elif m is not None:
        ctx.tie_broken("correspondence:%s" % stream, "replayed case still differs", m.to_json())
    ctx.account(stream, p, impl)


MANIFEST = {
    "level_text": "Lean 4 proof (work in progress): hostname wildcard algebra.",
    "level_note": "Trusted: Lean kernel + {propext, Classical.choice, Quot.sound}; hand-written model tied by differential testing.",
    "technique": "Lean 4 theorems over an exact model + differential correspondence with the real Go functions",
    "design_ref": "DESIGN.md section 5 C07",
}
