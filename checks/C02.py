"""C02 - No config update is lost or weakened on its way to each proxy's push.

Proof: lean/IstioModel/C02/*Theorems.lean - merge algebra of PushRequest.Merge/CopyMerge on a heap
model with object identities (union of keys, forced-or, newest snapshot, reason counts add, CopyMerge
never writes to an existing object, associativity).
Tie: T-diff - the real functions on real objects vs the Lean model, same op lines, line-by-line,
including the identity of results and the content of every object after each call.
On break: harness `oracle` evaluates the property's clauses directly on the real objects.
"""
import os

THEOREMS = ["IstioModel.C02.Theorems", "IstioModel.C02.QueueTheorems", "IstioModel.C02.QueueRefinement",
            "IstioModel.C02.DebounceTheorems", "IstioModel.C02.SenderTheorems", "IstioModel.C02.PipeTheorems", "IstioModel.C02.PipeSnapshot"]
STREAMS = ("merge", "queue", "debounce", "sender", "server")
TIMING = ("debounce", "sender", "server")


def clause_of(v):
    """`FAIL <clause> op=.. ..` -> the clause without the position (fingerprints name a class, not a place)."""
    t = v.split()
    return t[1] if len(t) > 1 else "unspecified"


def first_fail(ctx, stream, ops, out, rep):
    """Build the violation from a verdict file: verdict index -> case lines."""
    if not os.path.exists(out):
        return None
    verdicts = ctx.read_lines(out)
    lines = ctx.read_lines(ops)
    starts = [k for k, l in enumerate(lines) if l.startswith("case")]
    for i, v in enumerate(verdicts):
        if v.startswith("FAIL"):
            clause = clause_of(v)
            if i < len(starts):
                s = starts[i]
                e = starts[i + 1] if i + 1 < len(starts) else len(lines)
                case = lines[s:e]
            else:
                case = lines
            return ("%s:%s" % (stream, clause),
                    "push-request %s handling violates clause '%s' on the real code" % (stream, clause),
                    {"stream": stream, "ops": case, "oracle_verdict": v, "correspondence": rep})
    return None


def oracle(ctx, stream, case_lines, rep, only_case=False):
    """Property-level search on the implementation: first the shrunk case, then everything generated."""
    cands = []
    p = os.path.join(ctx.work, "%s.oracle.ops" % stream)
    with open(p, "w") as f:
        f.write("\n".join(case_lines) + "\n")
    cands.append(p)
    g = os.path.join(ctx.work, "%s.gen.ops" % stream)
    if os.path.exists(g) and not only_case:
        cands.append(g)
    cdir = os.path.join(os.path.dirname(os.path.dirname(os.path.abspath(__file__))), "harness", "corpus", ctx.pid)
    if os.path.isdir(cdir) and not only_case:
        for f in sorted(os.listdir(cdir)):
            if f.startswith(stream + ".") and f.endswith(".ops"):
                cands.append(os.path.join(cdir, f))
    died = None
    for ops in cands:
        out = os.path.join(ctx.work, os.path.basename(ops) + ".verdict")
        if os.path.exists(out):
            os.remove(out)
        rc, log = ctx.harness("oracle", stream, ops, out)
        found = first_fail(ctx, stream, ops, out, rep)  # whatever it wrote counts, also when it exited non-zero
        if found:
            return found
        if rc != 0 and died is None:
            died = (ops, rc, log)
    if died is not None:
        # the oracle process itself died on the real code (a panic outside recover, a deadlock killed by the
        # time-out): that is an observation about the implementation, not "nothing found"
        ops, rc, log = died
        return ("%s:oracle-process-died" % stream,
                "the property oracle for stream %s died (rc=%d) while running the real code" % (stream, rc),
                {"stream": stream, "ops": ctx.read_lines(ops)[:200], "oracle_log": log[-3000:], "correspondence": rep})
    return None


def oracle_all(ctx, stream):
    """Second line: the oracle over every generated case, independent of the model.  The FIRST failing verdict
    of this pass is the violation (no second run is asked to confirm it)."""
    g = os.path.join(ctx.work, "%s.gen.ops" % stream)
    if not os.path.exists(g):
        return
    if not ctx.streams.get(stream, {}).get("agree", True):
        return  # the correspondence already broke on this stream and the oracle has searched it
    out = g + ".verdict"
    if os.path.exists(out):
        os.remove(out)
    rc, log = ctx.harness("oracle", stream, g, out)
    found = first_fail(ctx, stream, g, out, None)
    if os.path.exists(out):
        ctx.count("oracle.%s.cases" % stream, len(ctx.read_lines(out)))
    if found:
        ctx.violation(found[0], found[1], found[2], True)
        return
    if rc != 0 or not os.path.exists(out):
        ctx.violation("%s:oracle-process-died" % stream,
                      "the property oracle for stream %s died (rc=%d) while running the real code" % (stream, rc),
                      {"stream": stream, "oracle_log": log[-3000:]}, False)


def split_cases(lines):
    cases, cur = [], []
    for l in lines:
        if l.startswith("case") and cur:
            cases.append(cur)
            cur = []
        cur.append(l)
    if cur:
        cases.append(cur)
    return cases


def timing_eval(ctx, stream, ops_path, tag):
    """One execution of an ops file on the real code and on the model.
    Returns (ran, ncases, nops, mismatch-or-None, [(case_lines, verdict_line)], impl_path, log).
    mismatch covers (a) the line-by-line comparison and (b), for `debounce`, the trace acceptance: the event
    trace the harness observed is fed to the Lean driver, which must find it to be a run of the model."""
    from verif import Mismatch
    ctx._c02_unjudged = 0
    ok, impl, model, log = ctx.run_pair(stream, ops_path, tag)
    if not ok:
        return False, 0, 0, None, [], impl, log
    nc, nops, mism = ctx.compare(stream, ops_path, impl, model)
    ops = ctx.read_lines(ops_path)
    out = ctx.read_lines(impl)
    fails = []
    cases = split_cases(ops)
    k = 0
    for cl in cases:
        for l in cl:
            if k < len(out) and "verdict=FAIL" in out[k]:
                fails.append((cl, out[k]))
            k += 1
    if stream == "debounce" and mism is None:
        tpath = impl + ".trace"
        traces = [l for l in ctx.read_lines(tpath)] if os.path.exists(tpath) else []
        traces = [l for l in traces if l.startswith("trace")]
        ends = sum(1 for l in ops if l.strip() == "end")
        if len(traces) != ends:
            mism = Mismatch(stream, ops[-1:], 0, "<%d trace lines for %d cases>" % (len(traces), ends), "<trace missing>", nc)
        else:
            t2 = os.path.join(ctx.work, "%s.%s.trace.ops" % (stream, tag))
            t, lines2 = 0, []
            for l in ops:
                if l.strip() == "end":
                    lines2.append(traces[t])
                    t += 1
                lines2.append(l)
            with open(t2, "w") as f:
                f.write("\n".join(lines2) + "\n")
            m2 = t2 + ".model"
            rc, err = ctx.drv(stream, t2, m2)
            res = ctx.read_lines(m2) if rc == 0 else []
            if len(res) < len(lines2):
                mism = Mismatch(stream, ops[-1:], 0, "<trace acceptance>", "<lean driver stopped: %s>" % err[-300:], nc)
            else:
                ctx._c02_unjudged = sum(1 for a in lines2 if a.startswith("trace") and "N|flood-unjudged" in a.split())
                if tag == "run":
                    for a in lines2:
                        if a.startswith("trace"):
                            toks = a.split()
                            if "N|flood-judged" in toks:
                                ctx.count("debounce.flood.judged(no-quiet-period-can-have-elapsed)")
                            if "N|flood-unjudged" in toks:
                                ctx.count("debounce.flood.unjudged(degraded:machine-load)")
                            for t in toks:
                                if t.startswith("N|flood-attempts=") and t[17:].isdigit() and int(t[17:]) > 1:
                                    ctx.count("debounce.flood.repeated", int(t[17:]) - 1)
                    ctx.count("debounce.traces.accepted", sum(1 for a, b in zip(lines2, res) if a.startswith("trace") and b.startswith("accept")))
                    # which branches of pushWorker / the select loop the real code took (read off the observed times)
                    for a, b in zip(lines2, res):
                        if a.startswith("trace") and b.startswith("accept"):
                            for kv in b.split()[1:]:
                                k_, _, v_ = kv.partition("=")
                                if k_ in ("quiet", "max", "during", "rearm", "bypass") and v_.isdigit() and int(v_):
                                    ctx.count("debounce.branch." + {"quiet": "push-after-quiet-period", "max": "push-at-debounceMax",
                                                                    "during": "batch-began-while-a-push-was-running",
                                                                    "rearm": "timer-re-armed(inferred)", "bypass": "eds-bypass-push"}[k_], int(v_))
                cn = 0
                for idx, (a, b) in enumerate(zip(lines2, res)):
                    if a.startswith("case"):
                        cn += 1
                    if a.startswith("trace") and not b.startswith("accept"):
                        mism = Mismatch(stream, cases[cn - 1], len(cases[cn - 1]) - 1,
                                        "observed " + a[:3000], "the observed trace is not a run of the debounce model: " + b, cn)
                        break
    if tag == "run" and stream == "sender":
        branch_counters_sender(ctx, ops, out)
    if tag == "run" and stream == "server":
        class_counters_server(ctx, ops, impl)
    return True, nc, nops, mism, fails, impl, log


def class_counters_server(ctx, ops, impl):
    """Classes of the server cases (from the case headers and the ops) and what the harness saw happen
    (side file <impl>.stats: which way a both-ready select went, ConfigUpdate finding the channel full, ...)."""
    for cl in split_cases(ops):
        h = cl[0].split()
        if len(h) >= 5:
            ctx.count("server.class.push-throttle-%s" % ("default(100)" if h[3] == "0" else "saturated(%s)" % h[3]))
            ctx.count("server.class.eds-debounce-%s" % ("on" if h[4] != "0" else "off"))
            if h[4] == "0" and any(l.startswith("update") and len(l.split()) >= 3 and l.split()[2].startswith("Endpoints/") for l in cl):
                ctx.count("server.class.eds-debounce-off-with-endpoints-only-updates")
        if any(l.split()[:3] == ["update", "1", "-"] for l in cl):
            ctx.count("server.class.key-less-forced-update")
        if any(l.startswith("update") and len(l.split()) == 5 and l.split()[2] == "-" for l in cl):
            ctx.count("server.class.addresses-or-waypoints-only-update")
        if sum(1 for l in cl if l.startswith("connheld")) >= 2:
            ctx.count("server.class.two-connections-parked-in-initialisation")
        if any(l.split()[-1] == "router" for l in cl if l.startswith("conn")):
            ctx.count("server.class.router-proxy")
        burst = longest = 0
        for l in cl:
            burst = burst + 1 if l.startswith("update") else 0
            longest = max(longest, burst)
        if longest > 10:
            ctx.count("server.class.burst-longer-than-the-push-channel")
    sp = impl + ".stats"
    if os.path.exists(sp):
        for l in ctx.read_lines(sp):
            f = l.split()
            if len(f) == 2 and f[1].isdigit():
                ctx.count("server." + f[0], int(f[1]))


def branch_counters_sender(ctx, ops, out):
    """Which exit each flight of the real doSendPushes took (read off the `proc=` column before/after the op)."""
    def proc(line):
        for t in line.split():
            if t.startswith("proc="):
                return set(x.split(":")[0] for x in t[5:].split(";") if x and x != "-")
        return None
    prev = set()
    for o, a in zip(ops, out):
        if o.startswith("case"):
            prev = set()
            continue
        cur = proc(a)
        if cur is None:
            continue
        f = o.split()
        if f[0] == "pushdone":
            ctx.count("sender.branch.exit-after-push(done)")
        elif f[0] == "close" and len(f) > 1 and f[1] in prev and f[1] not in cur:
            ctx.count("sender.branch.exit-on-closed-stream")
        elif f[0] == "stop" and prev - cur:
            ctx.count("sender.branch.exit-on-server-stop", len(prev - cur))
        elif f[0] == "shut" and prev:
            ctx.count("sender.branch.queue-shutdown-with-flights", len(prev))
        if "down=1" in a and f[0] == "shut":
            ctx.count("sender.branch.loop-exit-on-shutdown")
        prev = cur


def timing_shrink(ctx, stream, case_lines, rounds=30):
    """Delta-debug a failing case of a timing stream (fails = disagreement, rejected trace or FAIL verdict)."""
    head, body = case_lines[0], list(case_lines[1:])

    def badops(impl):
        return sum(1 for l in ctx.read_lines(impl) if l.strip() == "bad-op") if impl and os.path.exists(impl) else 0

    base = [None]

    def fails(lines):
        p = os.path.join(ctx.work, "%s.shrink.ops" % stream)
        with open(p, "w") as f:
            f.write("\n".join([head] + lines) + "\n")
        ran, _, _, m, fv, impl, _ = timing_eval(ctx, stream, p, "shrink")
        if not (ran and (m is not None or bool(fv))):
            return False
        # a candidate must stay a well-formed case: removing a line (say, the `rsn` a later `req` refers to) must not
        # turn other lines into `bad-op`
        return base[0] is None or badops(impl) <= base[0]

    if fails(body):
        base[0] = badops(os.path.join(ctx.work, "%s.shrink.impl" % stream))

    n, i = 0, 0
    while i < len(body) and n < rounds:
        if body[i].strip() == "end":
            i += 1
            continue
        cand = body[:i] + body[i + 1:]
        n += 1
        if fails(cand):
            body = cand
        else:
            i += 1
    return [head] + body


# Clauses whose verdict depends on which goroutine of the real server runs first (ProxyUpdate hammer next to push
# rounds). A verdict of such a clause is confirmed by running the case alone again: a defect of the code (the
# lock around context read + enqueue missing, the wrong context handed over) shows again within a few runs - the
# mutations of notes/C02.md do in every run - while a verdict that never shows again in 8 runs of the same case is
# counted and kept in the evidence (`unreproduced_verdicts`), not reported: the check cannot tell it from an
# artefact of its own observation under that schedule.
RACY_CLAUSES = ("push-with-older-snapshot-than-the-previous-push-of-the-connection",)


def confirm_racy(ctx, stream, fv):
    kept = []
    for cl, line in fv:
        clause = line.split("verdict=FAIL:")[1].split()[0].split("@")[0]
        if clause not in RACY_CLAUSES or not any(l.startswith("puhammer") for l in cl):
            kept.append((cl, line))
            continue
        rp = os.path.join(ctx.work, "%s.confirm.ops" % stream)
        with open(rp, "w") as f:
            f.write("\n".join(cl) + "\n")
        again = False
        for _ in range(8):
            r3, _, _, _, fv3, _, _ = timing_eval(ctx, stream, rp, "confirm")
            if r3 and any(("verdict=FAIL:" + clause) in l3 for _, l3 in (fv3 or [])):
                again = True
                break
        if again:
            kept.append((cl, line))
        else:
            ctx.count("%s.verdict-not-reproduced.%s" % (stream, clause))
            ctx.extra.setdefault("unreproduced_verdicts", []).append({"stream": stream, "clause": clause, "ops": cl, "harness_answer": line})
            ctx.log("stream %s: verdict '%s' of a puhammer case did not show again in 8 runs of the case alone - counted, not reported" % (stream, clause))
    return kept



def timing_stream(ctx, stream, ncases, attempts=3):
    """T-diff for the streams that run real goroutines and timers (debounce, sender).
    * A property verdict of the run itself (`verdict=FAIL:<clause>` in the harness answer: loss, weakening, two pushes
      in flight, leaked token / processing entry, never pushed, ...) is a violation at once - no reproduction asked.
    * A disagreement between model and implementation (incl. a rejected trace) is a broken tie; since the compared
      lines are schedule-independent none is expected, and it only counts when the case disagrees again when run
      alone (twice) or the whole file disagrees in every attempt."""
    from verif import HARNESS
    st = {"cases": 0, "ops": 0, "agree": True}
    ctx.streams[stream] = st
    files = []
    cdir = os.path.join(HARNESS, "corpus", ctx.pid)
    if os.path.isdir(cdir):
        for f in sorted(os.listdir(cdir)):
            if f.startswith(stream + ".") and f.endswith(".ops"):
                files.append(("corpus:" + f, os.path.join(cdir, f)))
    if ncases > 0:
        ops = os.path.join(ctx.work, "%s.gen.ops" % stream)
        if os.path.exists(ops):
            os.remove(ops)
        rc, out = ctx.harness("gen", stream, ctx.seed, ncases, ops)
        if rc != 0 or not os.path.exists(ops):
            ctx.tie_broken("harness-gen:" + stream, out)
            st["agree"] = False
            return False
        files.append(("generated", ops))
    all_ok = True
    for tag, ops in files:
        mism, ran, nc, nops, impl, log = None, False, 0, 0, None, ""
        for attempt in range(attempts):
            r, nc_, nops_, mism, fv, impl_, log = timing_eval(ctx, stream, ops, "run")
            if not r:
                mism = None
                continue
            ran, nc, nops, impl = True, nc_, nops_, impl_
            if fv:
                fv = confirm_racy(ctx, stream, fv)
            if fv:
                # the real code violated a clause of the property in this run
                cl, line = fv[0]
                clause = line.split("verdict=FAIL:")[1].split()[0].split("@")[0]  # class, without the op position
                all_ok = False
                st["agree"] = False
                os.environ["C02_PATIENCE_MS"] = "2000"
                try:
                    small = timing_shrink(ctx, stream, cl)
                finally:
                    os.environ.pop("C02_PATIENCE_MS", None)
                ctx.violation("%s:%s" % (stream, clause),
                              "push-request %s handling violates clause '%s' on the real code" % (stream, clause),
                              {"stream": stream, "ops": small, "unshrunk_ops": cl, "harness_answer": line, "source": tag}, True)
                mism = None
                break
            if mism is None:
                break
            ctx.count("%s.re-run-after-a-disagreement" % stream)
            ctx.log("stream %s (%s) attempt %d: differs at case %d op %d\n   impl : %s\n   model: %s"
                    % (stream, tag, attempt + 1, mism.case_no, mism.line_in_case, mism.impl_line[:400], mism.model_line[:400]))
            rp = os.path.join(ctx.work, "%s.repro.ops" % stream)
            with open(rp, "w") as f:
                f.write("\n".join(mism.case_lines) + "\n")
            again = 0
            for _ in range(2):
                r3, _, _, m3, fv3, _, _ = timing_eval(ctx, stream, rp, "repro")
                if r3 and (m3 is not None or fv3):
                    again += 1
            if again == 2:
                break
            ctx.count("%s.not-reproduced" % stream)
        if not ran:
            ctx.tie_broken("stream-run:%s" % stream, log, {"ops_file": tag})
            st["agree"] = False
            all_ok = False
            continue
        st["cases"] += nc
        st["ops"] += nops
        ctx.account(stream, ops, impl)
        if mism is None:
            continue
        all_ok = False
        st["agree"] = False
        os.environ["C02_PATIENCE_MS"] = "2000"  # the case already failed reproducibly; do not wait 10 s per probe
        try:
            small = timing_shrink(ctx, stream, mism.case_lines)
        finally:
            os.environ.pop("C02_PATIENCE_MS", None)
        p = os.path.join(ctx.work, "%s.min.ops" % stream)
        with open(p, "w") as f:
            f.write("\n".join(small) + "\n")
        r2, _, _, m2, _, _, _ = timing_eval(ctx, stream, p, "min")
        rep = (m2 or mism).to_json()
        rep["source"] = tag
        found = oracle(ctx, stream, small, rep)
        if found:
            ctx.violation(found[0], found[1], found[2], True)
        else:
            ctx.tie_broken("correspondence:%s" % stream,
                           "model and implementation disagree on stream %s (reproduced); the property oracle found no failing input"
                           % stream, rep)
    ctx.log("stream %s: %d cases, %d ops, %s" % (stream, st["cases"], st["ops"], "agree" if all_ok else "DIFFER"))
    return all_ok


def stress(ctx):
    """Concurrency smoke for the one assumption the sequential queue theorems make about Go (each method is
    atomic under the queue's mutex): 8 producers x 4 workers on one real PushQueue, no_loss / one-in-flight /
    isolation / shared-request-untouched evaluated on what the workers were handed."""
    runs = ctx.n(4, 40)
    per = ctx.n(3000, 20000)
    for k in range(runs):
        rc, out = ctx.harness("stress", int(ctx.seed) * 1000 + k, 8, 4, per)
        line = (out.strip().split("\n") or [""])[-1]
        ctx.count("stress.runs")
        ctx.note_case("stress %d %s" % (k, line), True, {"stream": "stress", "result": line} if k == 0 else None)
        if rc != 0 or not line.startswith("OK"):
            clause = line.split()[1] if line.startswith("FAIL") and len(line.split()) > 1 else "crashed"
            ctx.violation("stress:%s" % clause,
                          "concurrent producers/workers on the real PushQueue violate clause '%s'" % clause,
                          {"stream": "stress", "cmd": "harness/bin/c02 stress %d 8 4 %d" % (int(ctx.seed) * 1000 + k, per),
                           "output": out[-2000:]}, True)
            return


def one_lake_build(ctx):
    """lean_prove and build_drv start `lake build` three times (theorem modules, the audit command, the driver); under
    machine load every start costs tens of seconds.  The first call builds all targets of this check in one
    invocation; the later calls find their targets built and return at once."""
    orig = ctx.lake_build
    built = set()
    everything = THEOREMS + ["IstioModel.Common.Audit", "drv_c02"]

    def lb(targets, timeout=3000):
        if set(targets) <= built:
            return 0, ""
        want = list(dict.fromkeys(list(targets) + everything))
        rc, out = orig(want, timeout)
        if rc == 0:
            built.update(want)
            return rc, out
        # say which of the asked targets is broken: build only those
        return orig(list(targets), timeout)

    ctx.lake_build = lb


def source_facts(ctx):
    """Facts read off the source of the tree under check (go/ast): initPushContext publishes under pushContextMu.Lock;
    ProxyUpdate and the debug AdsPushAll read the global context and enqueue under pushContextMu.RLock.  They back
    the guard of the model event PEv.proxyUpdate (a request enqueued later never carries an older push context),
    which the sequential differential run cannot see broken; `puhammer` goes after the same race dynamically."""
    from verif import REPO
    rc, out = ctx.harness("srcfacts", os.path.realpath(REPO))
    lines = [l for l in out.strip().split("\n") if l.strip()]
    if rc != 0 or not lines:
        ctx.tie_broken("source-facts", out)
        return
    for l in lines:
        f = l.split(None, 2)
        ctx.count("source-fact.%s" % ("holds" if len(f) >= 2 and f[1] == "ok" else "BROKEN"))
        if len(f) < 2 or f[1] != "ok":
            ctx.tie_broken("source-fact:" + f[0],
                           "the model's assumption is no longer backed by the code: %s\n(the guard `p.version <= ver` of PEv.proxyUpdate / "
                           "the hypothesis of pipeline_newest_snapshot: a request enqueued later never carries an older push context)" % l,
                           {"fact": l})


def robust(ctx, fn, *a, **kw):
    """harness/bin is shared with the checks of other properties running concurrently; if our binary
    disappears under us, rebuild it and run the step again (a machinery hiccup, not a verdict)."""
    for _ in range(3):
        try:
            return fn(*a, **kw)
        except FileNotFoundError as e:
            ctx.log("harness binary vanished (%s); rebuilding and repeating the step" % e)
            ctx.count("harness.rebuilt")
            if not build_with_retry(ctx):
                return None
    return fn(*a, **kw)


def build_with_retry(ctx, tries=4):
    """The Go build cache is shared by all checks and gets trimmed while they run; the linker then fails with
    `cannot open file ~/.cache/go-build/...`.  That is a machinery hiccup, not a hook that stopped compiling:
    build again (the compiler refills the cache) before calling the tie broken."""
    import json as _json
    import time as _time
    for k in range(tries):
        before = len(ctx.violations)
        if ctx.go_build():
            return True
        new = ctx.violations[before:]
        transient = False
        for v in new:
            try:
                d = _json.load(open(v["path"]))["replay"].get("detail", "")
            except Exception:
                d = ""
            if ".cache/go-build" in d or "no space left" in d or "could not import" in d:
                transient = True
        if not transient or k + 1 == tries:
            return False
        for v in new:
            try:
                os.remove(v["path"])
            except OSError:
                pass
        del ctx.violations[before:]
        ctx.count("harness.build-retried")
        ctx.log("go build failed on a trimmed build cache; building again")
        _time.sleep(2 + 3 * k)
    return False


def run(ctx):
    ctx.rule = ("merge: 2-4 PushRequest objects over shared/unshared/nil/empty map objects (7 config keys, 4 addresses, 3 waypoints, "
                "5 reasons incl. zero counts), then 1-5 Merge/CopyMerge/ReasonStats.CopyMerge calls incl. nil arguments, self-merge, "
                "chains through the previous result, both bracketings of a triple; "
                "queue: 1-4 connections, 3-80 Enqueue/Dequeue/MarkDone/ShutDown/Pending ops on a real PushQueue (a third of the enqueues "
                "hand one shared request to every connection), drained at the end; "
                "debounce: 1-7 sends (some with a snapshot, some endpoints-only with EDS debounce off) with sleeps around the quiet period and a "
                "held pushFn (40% of cases put sends inside a running push); one case in eight sends copies of a request about five times "
                "closer together than a 40-60 ms quiet period for three times debounceMax: a push has to be entered by 2*debounceMax + "
                "DebounceAfter; a flood is judged only if the clock shows that no two copies were a quiet period apart up to the push, and is "
                "repeated (up to four times) otherwise; the observed event trace must be accepted as a run of the model; "
                "sender: real doSendPushes, semaphore capacity 1-3, 1-4 connections (odd ids delta), enq/deliver/pushdone/close/stop/shut in any "
                "order, rarely a nil request; "
                "server: a real DiscoveryServer (push throttle 100, or 1-2 in a quarter of the cases; EDS debounce off in a quarter, then a third "
                "of the updates are endpoints-only and their Push calls overlap the debounced ones), 1-8 real stream loops (SotW and delta, a "
                "quarter router proxies), bursts of 1-4 or 11-18 ConfigUpdate calls (config keys, key-less forced, addresses / waypoints "
                "only, endpoints only), 2-6 concurrent ConfigUpdate callers, ProxyUpdate and the debug AdsPushAll at any point (also for a "
                "connection stuck in Send with a newer snapshot waiting, and for an address with two registrations: both must get it), 4-16 "
                "goroutines calling ProxyUpdate throughout a burst of push rounds (version clauses), client ACK traffic, requests for a new "
                "resource type between pushes (also with a failing transport: Process fails), Recv failing with an unexpected error, "
                "Connection.Stop() while pushes are on their way, while the stream loop is busy answering a request with a push event "
                "waiting for it, on a connection parked in its initialisation and on one stuck in Send; one or two connections parked between "
                "addCon and MarkInitialized, Send failing (also the first answer of a parked connection and a Send that is stuck), Send "
                "blocking, clients leaving (idle, blocked, parked mid-initialisation), the same node re-connecting while its old stream "
                "ends, the push queue shut down with live stream loops, the whole server stopped (stop channel closed, "
                "DiscoveryServer.Shutdown) while push events are parked for connections that do not read; at every sync the server's "
                "connection table must hold exactly the live connections; updates mostly name keys of their "
                "own, a third repeat the previous keys (also alone in a sync window); expected and seen (c:/a:/w:/forced facts) are counted per "
                "sync window (the model takes a ghost `mark` at every sync); snapshot versions per connection observed; "
                "stress: 8 producers x 4 workers on one real queue; "
                "distinct = hash of (ops, implementation outputs); non-trivial = at least one op")
    ctx.assumptions = [
        "a verdict of the version clause `push-with-older-snapshot...` in a case with concurrent ProxyUpdate callers (puhammer) is reported only if it shows again in one of 8 runs of the case alone; one such verdict was seen once in ~200 quick runs on the unchanged tree and never again in 18 replays (history in notes/C02.md): counted as server.verdict-not-reproduced.*, kept under coverage.unreproduced_verdicts",
        "every PushQueue method is one atomic step (holds the queue mutex throughout) - exercised by the concurrent stress run, not proved",
        "callers do not write to a PushRequest after handing it to ConfigUpdate / Enqueue, and hand a fresh request (fresh maps) to every "
        "ConfigUpdate call (the queue itself is proved never to write to a request; debounce merges in place into the first request of a batch)",
        "every request handed to PushQueue.Enqueue carries a snapshot (Push != nil) that is at least as new as every one enqueued before: "
        "true for Push/AdsPushAll/ProxyUpdate, the only callers (all three are run by the server stream, which checks the versions each "
        "connection is pushed with); without it CopyMerge forgets the older / keeps the staler snapshot (copyMerge_push_nil_witness)",
        "only doSendPushes calls Dequeue and only its three exit paths (through done()) call MarkDone",
        "the guard of the model event proxyUpdate (`p.version <= ver`: a request enqueued later never carries an older push context) is, in "
        "the real code, the lock pairing initPushContext (publish under pushContextMu.Lock) / ProxyUpdate, debug AdsPushAll (read the "
        "context AND enqueue under RLock): taken as a hypothesis by pipeline_newest_snapshot, pinned on the source by three go/ast facts "
        "and gone after dynamically by `puhammer` under the version clauses",
        "'newest snapshot' means the snapshot of the request enqueued last on that connection; it is the newest one because the Push calls "
        "(each runs StartPush synchronously) do not overlap: proved for the debounced path (debounced_pushes_sequential); with "
        "PILOT_ENABLE_EDS_DEBOUNCE=false (not the default) the bypass Push can overlap another Push (eds_bypass_overlap_witness) and "
        "different connections may then be offered two requests in different orders; the server stream runs such overlapping pushes "
        "(loss clauses judged, version clauses not judged in a window where two Push calls can overlap)",
        "nobody enqueues a nil request (it would crash doSendPushes: nil_enqueue_crashes_witness; sender_never_crashes otherwise)",
        "pipeline_no_loss is stated for the connections registered from the start (unregistering allowed); a connection registering "
        "later, incl. the addCon-before-MarkInitialized window, is covered by the real-server stream only",
        "liveness is proved per stage only (debounce_eventually, debounce_max_delay, loop_can_proceed, flight_exit_releases; every stage "
        "step is a step of the composition: chan_head_can_be_received, entered_push_can_start, debounce_step_is_pipeline_step, "
        "sender_step_is_pipeline_step); there is no end-to-end 'eventually delivered' theorem: Go scheduler fairness, timers eventually "
        "firing, pushFn / pushConnection returning, clients reading, a closed gRPC stream cancelling its context are assumed - end to "
        "end, 'comes to rest and everything was delivered' is what the server stream observes on the real code",
    ]
    one_lake_build(ctx)
    proved = ctx.lean_prove(THEOREMS)
    if not ctx.build_drv():
        return
    if not build_with_retry(ctx):
        return
    ctx.trusted.append("pilot/pkg/xds/zz_verif_c02.go (verif-tagged read-only snapshot of PushQueue tables / semaphore / push channel; entry "
                       "points to debounce / doSendPushes)")
    ctx.trusted.append("pilot/pkg/xds/zz_verif_c04.go (VerifNewConnection / VerifNewDeltaConnection: bare connections used as queue keys)")
    ctx.trusted.append("pilot/pkg/xds/zz_verif_e2e.go (gate at 'init:after-addcon' used to park a connection mid-initialisation); "
                       "DiscoveryServer.ProxyNeedsPush (public field) wrapped to observe Event.pushRequest per connection")
    ctx.trusted.append("pilot/test/xds.NewFakeDiscoveryServer builds the DiscoveryServer of the server stream (istio's own test fixture: "
                       "memory registries, fake kube client, debounce 3 ms); `stopserver` runs its registered clean-ups (close of the "
                       "stop channels, DiscoveryServer.Shutdown)")
    ctx.trusted.append("the harness writes the package-level settings features.PushThrottle / features.EnableEDSDebounce before each "
                       "server case (read by NewDiscoveryServer)")
    ctx.trusted.append("the hand-made gRPC server streams emulate 'the stream context is cancelled when the handler returns' and "
                       "'Recv fails when the context ends'; a failing transport fails the Sends of forced pushes and of answers to "
                       "requests only (the model's rule)")
    ctx.trusted.append("VerifC02QueueShutDown (zz_verif_c02.go) is a mutator, not an observer: it calls pushQueue.ShutDown(), the queue "
                       "half of DiscoveryServer.Shutdown")
    ctx.trusted.append("source facts read with go/ast (harness/c02/srcfacts.go): the lock pairing behind the guard of PEv.proxyUpdate")
    robust(ctx, source_facts, ctx)
    robust(ctx, ctx.diff_stream, "merge", ctx.n(4000, 100000), oracle=oracle)
    del ctx.samples[1:]  # one sample per stream (the evidence keeps six)
    robust(ctx, ctx.diff_stream, "queue", ctx.n(1500, 40000), oracle=oracle)
    # real timers / goroutines: only schedule-independent facts are compared (see harness/c02/debounce.go,
    # sender.go); small on purpose
    robust(ctx, timing_stream, ctx, "debounce", ctx.n(120, 1500))
    robust(ctx, timing_stream, ctx, "sender", ctx.n(120, 1500))
    # a real DiscoveryServer with real stream loops (ConfigUpdate .. Event.pushRequest of every connection)
    robust(ctx, timing_stream, ctx, "server", ctx.n(100, 1200))
    for stream in STREAMS:
        robust(ctx, oracle_all, ctx, stream)
    if ctx.violations:
        ctx.log("stress skipped: a violation is already recorded")
    else:
        robust(ctx, stress, ctx)
    if not proved and not ctx.violations:
        pass  # finish() reports the broken proof; the oracle already searched every generated case


def replay(ctx, path):
    import json
    obj = json.load(open(path))
    rep = obj.get("replay", {})
    ops = rep.get("ops") or (rep.get("extra") or {}).get("ops")
    stream = rep.get("stream") or (rep.get("extra") or {}).get("stream") or "merge"
    if not ops:
        ctx.log("replay file has no ops; re-running the full check")
        return run(ctx)
    one_lake_build(ctx)
    if not (ctx.build_drv() and build_with_retry(ctx)):
        return
    p = os.path.join(ctx.work, "replay.ops")
    with open(p, "w") as f:
        f.write("\n".join(ops) + "\n")
    if stream in TIMING:
        # same judgement as the check run (timing_stream): a `verdict=FAIL:<clause>` in the answer of the real code is
        # the violation, whatever a second (racy) oracle run says; a disagreement counts when it shows twice
        ran_any, mcount, last, judged_runs, k = False, 0, None, 0, 0
        # a timing case says nothing in a run the machine spoiled (a flood whose copies came too far apart: trace note
        # N|flood-unjudged): such runs are repeated - up to 12 runs for 3 judged ones
        while judged_runs < 3 and k < 12:
            k += 1
            ran, nc, nops, m, fv, impl, log = robust(ctx, timing_eval, ctx, stream, p, "replay")
            if not ran:
                continue
            if getattr(ctx, "_c02_unjudged", 0) and not fv and m is None:
                ctx.count("replay.run-not-judged(machine-load)")
                continue
            judged_runs += 1
            if not ran_any:
                ctx.account(stream, p, impl)
            ran_any = True
            if fv:
                cl, line = fv[0]
                clause = line.split("verdict=FAIL:")[1].split()[0].split("@")[0]
                ctx.violation("%s:%s" % (stream, clause),
                              "push-request %s handling violates clause '%s' on the real code" % (stream, clause),
                              {"stream": stream, "ops": ops, "harness_answer": line, "source": "replay"}, True)
                return
            if m is None:
                continue  # (what the case shows may depend on a coin - which way a both-ready select goes: three judged runs)
            mcount, last = mcount + 1, m
            if mcount == 2:
                break
        if not ran_any and k >= 12 and getattr(ctx, "_c02_unjudged", 0):
            ctx.log("replay: no run could be judged (machine load: every flood let the quiet period elapse); nothing is claimed")
            ctx.count("replay.not-judged")
        elif not ran_any:
            ctx.tie_broken("stream-run:%s" % stream, log)
        elif mcount == 2:
            found = oracle(ctx, stream, ops, last.to_json(), only_case=True)
            if found:
                ctx.violation(found[0], found[1], found[2], True)
            else:
                ctx.tie_broken("correspondence:%s" % stream, "replayed case still differs", last.to_json())
        return
    ok, impl, model, log = ctx.run_pair(stream, p, "replay")
    m = ctx.compare(stream, p, impl, model)[2] if ok else None
    found = oracle(ctx, stream, ops, m.to_json() if m else None, only_case=True)
    if found:
        ctx.violation(found[0], found[1], found[2], True)
    elif m is not None:
        ctx.tie_broken("correspondence:%s" % stream, "replayed case still differs", m.to_json())
    elif not ok:
        ctx.tie_broken("stream-run:%s" % stream, log)
    if ok:
        ctx.account(stream, p, impl)


MANIFEST = {
    "level_text": ("Lean 4 proof over exact executable models of PushRequest.Merge/CopyMerge (heap with object identities and aliasing), "
                   "PushQueue, the debounce loop (transition system with explicit clock), doSendPushes with its done() exits, and their "
                   "composition from ConfigUpdate to Event.pushRequest (Pipe). Proved for all inputs / operation sequences / event "
                   "schedules: merged keys = union, forced = or, newest snapshot, reason counts add, associativity, CopyMerge and every "
                   "queue operation never write to an existing object; queue invariants, refinement to a per-connection mailbox, no_loss, "
                   "isolation, one push in flight, FIFO, redelivery after MarkDone; debounce_no_loss, single flight, sequential pushes, "
                   "wake-up, committed count, no deadlock; semaphore balance, MarkDone exactly once, no orphaned processing entry, every "
                   "flight has a releasing exit, no crash without a nil request; pipeline_no_loss (occurrence form: histories are logs "
                   "since a ghost `mark` that may be placed anywhere, so a repeated notification has to arrive again): every fact of every "
                   "notification accepted since the mark is, for every connection registered from the start, in the channel / pending / "
                   "being pushed / waiting in the queue / parked / received by its stream loop since the mark / given up only for a closed "
                   "stream or a stopping server; pipeline_newest_snapshot: the request waiting for a connection (else its parked event) "
                   "carries a push context at least as new as the newest published one (ProxyUpdate / AdsPushAll, the other producers of "
                   "the queue, are events of the composition; a stream loop may return at any moment it holds no event - Connection.Stop - "
                   "and the flight waiting for it then takes the closed-stream exit); debounce_max_delay: once a batch is debounceMax old, "
                   "further updates cannot postpone its push beyond the next timer. Liveness is per stage only (no end-to-end 'eventually "
                   "delivered' theorem). NOT covered by the composed theorems: a connection that registers later (`register`, "
                   "i.e. every reconnect and every new proxy) - that case is covered by the real-server stream only. "
                   "Tied to /repo on every run by differential runs against the real functions, incl. a real DiscoveryServer with real "
                   "stream loops (done() after a failing Send, AllClients incl. connections mid-initialisation, delta and SotW, "
                   "ProxyUpdate (incl. two registrations of one address, and from concurrent goroutines), AdsPushAll, Connection.Stop, Recv / "
                   "Process errors, router proxies, queue shutdown, server stop with parked push events, saturated throttle, overlapping "
                   "Push calls with EDS debounce off, the connection table at rest)."),
    "level_note": ("Trusted: Lean kernel + {propext, Classical.choice, Quot.sound}; the hand-written models (tied by differential testing: "
                   "merge and queue exactly incl. object identities; debounce by trace acceptance - the observed event trace must be a run of "
                   "the model - plus schedule-independent facts; doSendPushes and the real server at rest); hook files zz_verif_c02.go, "
                   "zz_verif_c04.go, zz_verif_e2e.go (gate). Assumed, not proved: atomicity of the queue methods under their mutex "
                   "(stress-tested), scheduler/timer fairness for liveness, callers not writing to a request after hand-off, Push != nil and "
                   "request != nil on Enqueue, Push calls not overlapping (false with EDS debounce switched off). Liveness: per-stage theorems only, "
                   "chained end to end by observation of the real server (rest is reached, everything delivered), not by a theorem. The guard of proxyUpdate (`p.version <= ver`) is the pushContextMu lock pairing taken as a hypothesis "
                   "(source facts + concurrent ProxyUpdate callers on the real server back it). The adsClients registration table is not "
                   "modelled: 'exactly the live connections are registered at rest' is an oracle clause on the real server only. Gaps: the composed theorem "
                   "covers connections registered from the start only (later registration: tie only); pushConnection itself and gRPC are "
                   "not modelled (the stream loop is 'receive event, then done()'); a full push channel (ConfigUpdate blocks) is modelled "
                   "but a ConfigUpdate that drops on a full channel would not be caught by the tie."),
    "technique": "Lean 4 theorems (invariants, refinement, induction over histories, composition) over exact models + differential correspondence incl. trace acceptance against the real Go code",
    "design_ref": "DESIGN.md section 5 C02",
}
