"""C16 - derived krt collections always equal their function of the inputs; subscriber streams are consistent.

Proof: lean/IstioModel/C16/MonitorTheorems.lean (the stream monitor accepts exactly the well-formed
streams that replay to the given contents: monitorB_iff, sound and complete; late subscribers),
lean/IstioModel/C16/RuntimeTheorems.lean (abstract runtime model of manyCollection, Model.lean:
state_correct_partial, key_move_witness, state_correct_key_preserving, one_to_one_by_value_witness,
stream_wellformed, deps_complete).
Tie: T-mon + T-diff on REAL krt collections.  harness/c16 builds static inputs, a
NewCollection / NewManyCollection whose transformation function interprets a data-described
Transform (krt.Fetch with FilterKey / FilterSelects / FilterSelectsNonEmpty / FilterLabel /
FilterIndex / FilterGeneric), an index and several subscribers, applies a random history, and at
quiescent points (exact: testing/synctest bubble) records List / GetKey / Index.Lookup and every
subscriber's event stream.  The Lean driver keeps the inputs itself, recomputes `specContents`
and runs the verified monitor on every stream; the two outputs are compared line by line.
Known finding F6 (keys moving between parents without a barrier) is confined to `u*` lines of
cases flagged `f6`; every other difference is a VIOLATION.  Stream `exact` ties Model.lean itself to
the code: the model is executed on the same history (sequential schedule) and must produce exactly
the real events, contents and index lookups at every step (F6 included).
"""
import hashlib
import json
import os
import re
import time

THEOREMS = ["IstioModel.C16.MonitorTheorems", "IstioModel.C16.RuntimeTheorems", "IstioModel.C16.IndexTheorems",
            "IstioModel.C16.JoinTheorems", "IstioModel.C16.DisciplineTheorems",
            "IstioModel.C16.JoinModelTheorems", "IstioModel.C16.Registration", "IstioModel.C16.GenTie",
            "IstioModel.C16.IndexGenTheorems", "IstioModel.C16.JoinInflight", "IstioModel.C16.JoinStart", "IstioModel.C16.StaticTheorems"]
GEN = "IstioModel/Generated/C16RegFacts.lean"

F6_FP = "krt:many:key-moves-between-parents:new-parent-first"
F6_WHAT = ("krt manyCollection loses an output key that moves to another parent input when the new parent is "
           "applied before the old parent released it: the old parent's later diff deletes the live output "
           "(contents and stream differ from the transformation of the current inputs only on the moved keys)")
F10_FP = "krt:join:same-key-changes-in-two-collections:events-converted-from-live-state"
F10_WHAT = ("krt JoinCollection converts and drops the events of one sub-collection by looking at the live contents of the "
            "other sub-collections instead of what it has delivered: when the same key changes in two joined collections "
            "without quiescence in between (or is present in two collections when the join starts) subscribers get a duplicate "
            "Add, an Update/Delete of an unknown key or a wrong Old (List/GetKey stay correct)")
F13_FP = "krt:nestedjoin:outer-collection-changes-with-events-in-flight"
F13_WHAT = ("krt NestedJoinWithMergeCollection handles additions, updates and removals of joined collections on the outer "
            "collection's handler goroutine, next to the queue that handles the joined collections' events and to its own "
            "asynchronous start: when the outer collection changes while events are in flight (or before the join registered "
            "to its initial collections) subscribers get a Delete or an Update with a zero-valued Old for a key they do not "
            "hold, and List/GetKey/Index can keep objects of a collection that is no longer joined")
U_OPS = ("ulist", "ulookup", "ustream")


def known_ops(stream):
    """the u-lines on which a difference belongs to the known class of the stream: F10 (join) garbles events
    only - List / GetKey / Index.Lookup read the live collections and must stay right also on the raced keys"""
    if stream.startswith("joinn"):
        return U_OPS            # F13 also leaves wrong contents
    return ("ustream",) if stream.startswith("join") else U_OPS
FLAGS = ("f6", "jr")


def known_class(stream):
    if stream.startswith("joinn"):
        return (F13_FP, F13_WHAT)
    return (F10_FP, F10_WHAT) if stream.startswith("join") else (F6_FP, F6_WHAT)


def corpus_for(stream, fname):
    """corpus files are named <stream>.<case>.ops; `join.` must not pick up `joinm.` / `joinr.` files"""
    return fname.startswith(stream + ".") and fname.endswith(".ops")


def run_pair(ctx, stream, ops_path, tag, env=None):
    """exec on the real krt (writes impl + trace), then the Lean driver on the trace."""
    impl = os.path.join(ctx.work, "%s.%s.impl" % (stream, tag))
    model = os.path.join(ctx.work, "%s.%s.model" % (stream, tag))
    for p in (impl, model, impl + ".trace"):
        if os.path.exists(p):
            os.remove(p)
    rc, out = ctx.harness("exec", stream, ops_path, impl, env_extra=env)
    if not os.path.exists(impl + ".trace"):
        return False, impl, model, "harness exec rc=%d wrote no trace: %s" % (rc, out[-3000:])
    rc2, err = ctx.drv(stream, impl + ".trace", model)
    if rc2 != 0:
        return False, impl, model, "lean driver rc=%d: %s" % (rc2, err[-3000:])
    return True, impl, model, ("harness exec rc=%d: %s" % (rc, out[-2000:]) if rc != 0 else "")


def branch_counters(ctx, stream, ops_path, trace_path, impl_path=None):
    """what the cases met (evidence counters): the shapes the generator chose and the rare branches of krt the
    recorded streams show"""
    ops = ctx.read_lines(ops_path)
    held, seen_held = False, {}
    started = False
    for l in ops:
        t = l.split()
        if not t:
            continue
        if t[0] == "case":
            held, seen_held = False, {}
            tr = t[3] if len(t) > 3 else ""
            if stream in ("krt", "krtf6", "exact"):
                shape = {"0": "one_to_one_key_preserving", "1": "one_to_many", "2": "one_to_one_by_value"}.get(tr[:1], "?")
                ctx.count("shape.%s.%s" % (stream, shape))
                if "outIndex" in tr:
                    ctx.count("shape.fetch_through_multi_key_index")
                if "single1" in t[4:]:
                    ctx.count("shape.%s" % ("NewManyFromNothing" if tr[:1] == "1" else "NewSingleton"))
                p = tr.split(":")
                if len(p) >= 3:
                    ctx.count("shape.gate.%s" % ("on" if p[1] == "1" else "off"))
                    fetches = [f for f in p[2].split(";") if f]
                    ctx.count("shape.fetches.%d" % len(fetches))
                    for f in fetches:
                        atoms = f.split("+")
                        ctx.count("shape.conjuncts.%d" % len(atoms))
                        for a in atoms:
                            ctx.count("shape.atom.%s" % a)
                names = {"sd": "derived_copy", "sj": "join", "s2": "two_collections", "sm": "merge_join", "sn": "nested_merge_join",
                         "sp": "copy_of_own_primary_diamond", "ss": "own_primary"}
                mode = [m for m in names if m in t[4:]]
                ctx.count("shape.fetched_from.%s" % (names[mode[0]] if mode else "static"))
                if "chain" in t[4:]:
                    ctx.count("shape.chained_collection")
            if stream.startswith("join") and len(t) > 3 and t[3].isdigit():
                ctx.count("shape.%s.joined_collections.%s" % (stream, t[3]))
            started = False
        elif t[0] == "start":
            started = True
        elif t[0] in ("sub", "psub", "dsub", "xsub", "isub", "m.handler", "jsub") and len(t) >= 2:
            kind = t[2] if len(t) > 2 else "handler"
            ctx.count("subscriber.%s.%s.%s" % (t[0], kind, "after_start" if started or stream in ("mem", "inf") else "before_start"))
        elif t[0] in ("unsub", "punsub", "junsub", "xunsub", "iunsub", "gunsub"):
            ctx.count("subscriber.unregistered.%s" % t[0])
            for f, name in (("js", "join_over_static_singleton"), ("lr", "mem_store_written_before_run"),
                            ("fn", "informer_filtered_by_namespace"),
                            ("jd", "join_over_derived"), ("ju", "join_unchecked"), ("f6", "flagged_f6"), ("jr", "flagged_jr")):
                if f in t[3:]:
                    ctx.count("shape.%s" % name)
        elif t[0] == "burst":
            ctx.count("branch.burst_over_1024_batches_for_a_blocked_handler")
        elif t[0] in ("p.reset", "s.reset"):
            keys = [";".join(o.split(";")[:2]) for o in t[1:]]
            if len(set(keys)) < len(keys):
                ctx.count("branch.reset_with_duplicate_key")
            if len(keys) == 0:
                ctx.count("branch.reset_to_empty")
        elif t[0] == "pause":
            held, seen_held = True, {}
        elif t[0] == "resume":
            held = False
        elif held and t[0] in ("p.set", "p.del") and len(t) > 1:
            k = t[1] if t[0] == "p.del" else "/".join(t[1].split(";")[:2])
            if k in seen_held:
                # a second change of an input whose first event is still queued: the queued event is stale
                ctx.count("branch.exact.stale_queued_event")
                if t[0] == "p.del":
                    ctx.count("branch.exact.input_vanished_before_its_event_was_processed")
            seen_held[k] = True
    if impl_path and os.path.exists(impl_path):
        for l in ctx.read_lines(impl_path):
            for g in ("undisciplined", "ambiguous", "masked", "not-flagged", "not-started", "no-index"):
                if l.endswith(" " + g):
                    ctx.count("guard.%s.%s" % (stream, g))
    if os.path.exists(trace_path):
        for l in ctx.read_lines(trace_path):
            t = l.split()
            if t and t[0] in ("stream", "ustream", "pstream", "dstream", "xstream", "istream"):
                for e in t[2:]:
                    kind = e[:2]
                    if kind in ("A~", "U~", "D~"):
                        ctx.count("events.%s" % {"A~": "add", "U~": "update", "D~": "delete"}[kind])
                    if e.startswith("D~~") or e.startswith("D~/~"):
                        ctx.count("events.delete_with_zero_valued_old")
                    if "~?zero-valued-old?~" in e:
                        ctx.count("events.update_with_zero_valued_old")
                    if e.startswith("X~"):
                        ctx.count("events.malformed_shape")
                        ctx.count("events.%s.%s" % (stream, e[2:]))


def split_cases(ops):
    starts = [i for i, l in enumerate(ops) if l.startswith("case")]
    if not starts or starts[0] != 0:
        starts = [0] + starts
    return [(s, (starts[j + 1] if j + 1 < len(starts) else len(ops))) for j, s in enumerate(starts)]


def scan(ctx, ops_path, impl_path, model_path, stream="krt"):
    """Full comparison. Returns (ncases, nlines, f6_cases, real) where f6_cases are cases whose only
    differences are on u-lines of a flagged case, and real = list of (case_lines, idx, impl, model, start, end)
    (start / end: the lines of the case in the ops / impl / trace files)."""
    ops = ctx.read_lines(ops_path)
    impl = ctx.read_lines(impl_path)
    model = ctx.read_lines(model_path) if os.path.exists(model_path) else []
    f6_cases, real = [], []
    cases = split_cases(ops)
    for (s, e) in cases:
        head = ops[s].split()
        flagged = head[:1] == ["case"] and any(f in head[4:] for f in FLAGS)
        bad_u, bad_real = [], None
        for i in range(s, e):
            a = impl[i] if i < len(impl) else "<missing: harness stopped>"
            b = model[i] if i < len(model) else "<missing: model driver stopped>"
            if a == b:
                continue
            op = ops[i].split()[0] if ops[i].split() else ""
            if (flagged and op in known_ops(stream) and not a.startswith("<missing") and not b.startswith("<missing")
                    and a != "crash" and "crash" not in a.split()[:2]):
                bad_u.append((i - s, a, b))
            elif bad_real is None:
                bad_real = (ops[s:e], i - s, a, b, s, e)
        if bad_real is not None:
            real.append(bad_real)
        elif bad_u:
            f6_cases.append((ops[s:e], bad_u))
    return len(cases), len(ops), f6_cases, real


# contention settings for re-runs of one case: (GOMAXPROCS or None, busy goroutines outside the bubble)
CONTENTION = [(None, 0), ("2", 2), ("4", 8), ("1", 0), ("8", 4), ("3", 1), ("16", 16), (None, 6), ("2", 0), ("6", 12)]
COPIES = 20


def case_hash(stream, ops):
    return hashlib.sha1("\n".join([stream] + list(ops)).encode()).hexdigest()[:10]


def record(ctx, fp, what, rep, found=True):
    """ctx.violation, and a replay file whose name also carries a hash of the case: a later run with the same
    fingerprint and another case does not overwrite it"""
    n = len(ctx.violations)
    ctx.violation(fp, what, rep, found)
    if len(ctx.violations) > n and isinstance(rep, dict) and rep.get("ops"):
        v = ctx.violations[-1]
        new = v["path"][:-len(".json")] + "-" + case_hash(rep.get("stream", ""), rep["ops"]) + ".json"
        try:
            os.replace(v["path"], new)
            v["path"] = new
        except OSError:
            pass


def run_copies(ctx, stream, case_lines, copies, tag, setting=0):
    """the case `copies` times in one ops file (every copy runs in a bubble of its own), under one contention
    setting. Returns (ok, real, known, (ops, impl, model), log)."""
    p = os.path.join(ctx.work, "%s.%s.ops" % (stream, tag))
    with open(p, "w") as f:
        f.write(("\n".join(case_lines) + "\n") * copies)
    gmp, busy = CONTENTION[setting % len(CONTENTION)]
    env = {"C16_BUSY": str(busy)}
    if gmp:
        env["GOMAXPROCS"] = gmp
    ok, impl, model, log = run_pair(ctx, stream, p, tag, env)
    if not ok:
        return False, [], [], (p, impl, model), log
    _, _, known, real = scan(ctx, p, impl, model, stream)
    return True, real, known, (p, impl, model), log


def segment(ctx, paths, m):
    """the recorded trace and the implementation's answers of the case of mismatch m"""
    p, impl, model = paths
    s, e = m[4], m[5]
    tr = ctx.read_lines(impl + ".trace") if os.path.exists(impl + ".trace") else []
    return {"trace": tr[s:e], "impl_output": ctx.read_lines(impl)[s:e]}


def reproduction(ctx, stream, case_lines, runs, tag, stop_at=None):
    """re-runs one case `runs` times under varying contention; returns (hits, total, first mismatch, its segment)"""
    hits = total = 0
    first = seg = None
    i = 0
    while total < runs:
        ok, real, _, paths, log = run_copies(ctx, stream, case_lines, COPIES, tag, i)
        i += 1
        total += COPIES
        if not ok:
            continue
        hits += len(real)
        if real and first is None:
            first, seg = real[0], segment(ctx, paths, real[0])
        if stop_at and hits >= stop_at:
            break
    return hits, total, first, seg


def has_real_mismatch(ctx, stream, lines, copies=1, rnd=0):
    ok, real, _, _, _ = run_copies(ctx, stream, lines, copies, "shrink", rnd if copies > 1 else 0)
    return ok and bool(real)


def shrink(ctx, stream, case_lines, copies=1, max_rounds=150, budget=100.0):
    """Delta-debugging that keeps the header (hence the f6 flag) and only accepts candidates that
    still show a difference outside the known class. A schedule dependent case is run `copies` times per
    candidate (under varying contention): a candidate is accepted as soon as one run differs."""
    head, body = case_lines[0], list(case_lines[1:])
    rounds = 0
    t0 = time.time()
    chunk = max(1, len(body) // 2)
    while chunk >= 1 and rounds < max_rounds and time.time() - t0 < budget:
        i, progressed = 0, False
        while i < len(body) and rounds < max_rounds and time.time() - t0 < budget:
            cand = body[:i] + body[i + chunk:]
            rounds += 1
            if cand != body and has_real_mismatch(ctx, stream, [head] + cand, copies, rounds):
                body, progressed = cand, True
            else:
                i += chunk
        if chunk == 1 and not progressed:
            break
        chunk = max(1, chunk // 2) if chunk > 1 else (1 if progressed else 0)
    return [head] + body


def classify(op_line, impl_line, model_line):
    op = (op_line.split() or ["?"])[0]
    if impl_line.startswith("<missing") or impl_line == "crash":
        return "krt:crash", "the real krt collections panicked or the harness stopped"
    if op in ("stream", "ustream", "pstream", "dstream", "xstream", "istream"):
        kind = "event" if "reject:event" in model_line else ("contents" if "reject:contents" in model_line else "other")
        return ("krt:stream:%s" % kind,
                "a subscriber's recorded event stream is rejected by the verified monitor (%s)" % model_line)
    if op in ("list", "get", "lookup", "ulist", "ulookup", "flookup", "vlookup", "ilist", "iget", "ilookup"):
        return ("krt:%s" % ("lookup" if op in ("flookup", "vlookup", "ilookup") else op.lstrip("ui")),
                "%s on the real collection differs from the transformation applied to the current inputs" % op)
    return "krt:%s" % op, "model and implementation answer differently to '%s'" % op_line


def run_stream(ctx, stream, ncases):
    st = {"cases": 0, "ops": 0, "agree": True, "known_class_cases": 0}
    ctx.streams[stream] = st
    files = []
    cdir = os.path.join(os.path.dirname(ctx.work), "..", "harness", "corpus", ctx.pid)
    cdir = os.path.normpath(cdir)
    if os.path.isdir(cdir):
        for f in sorted(os.listdir(cdir)):
            if corpus_for(stream, f):
                files.append(("corpus:" + f, os.path.join(cdir, f)))
    if ncases > 0:
        ops = os.path.join(ctx.work, "%s.gen.ops" % stream)
        if os.path.exists(ops):
            os.remove(ops)
        rc, out = ctx.harness("gen", stream, ctx.seed, ncases, ops)
        if rc != 0 or not os.path.exists(ops):
            ctx.tie_broken("harness-gen:" + stream, out)
            st["agree"] = False
            return
        files.append(("generated", ops))
    for tag, ops in files:
        ok, impl, model, log = run_pair(ctx, stream, ops, "run")
        if not ok:
            ctx.tie_broken("stream-run:%s" % stream, log, {"ops_file": tag})
            st["agree"] = False
            continue
        nc, nl, f6_cases, real = scan(ctx, ops, impl, model, stream)
        st["cases"] += nc
        st["ops"] += nl
        ctx.account(stream, ops, impl)
        branch_counters(ctx, stream, ops, impl + ".trace", impl)
        if f6_cases:
            st["known_class_cases"] += len(f6_cases)
            case_lines, bad = f6_cases[0]
            fp, what = known_class(stream)
            ctx.violation(fp, what,
                          {"stream": stream, "ops": case_lines, "source": tag,
                           "differences": [{"op": case_lines[i], "implementation": a, "specification": b}
                                           for (i, a, b) in bad[:6]]}, True)
        for m in real[:3]:
            case_lines, idx, a, b = m[:4]
            st["agree"] = False
            ctx.log("stream %s (%s): real krt and specification differ at op %d '%s'\n   impl : %s\n   spec : %s"
                    % (stream, tag, idx, case_lines[idx], a[:300], b[:300]))
            seg = segment(ctx, (ops, impl, model), m)
            # does the case depend on the schedule? (re-run it alone, under varying contention)
            hits, total, _, _ = reproduction(ctx, stream, case_lines, 2 * COPIES, "rerun")
            if hits == 0:
                hits, total, _, _ = reproduction(ctx, stream, case_lines, 20 * COPIES, "rerun", stop_at=3)
            racy = hits < total
            copies = 1 if not racy else min(80, max(8, 4 * total // max(hits, 1)))
            small = shrink(ctx, stream, case_lines, copies) if hits else case_lines
            ok2, real2, _, paths2, _ = run_copies(ctx, stream, small, 2 * copies, "min", 1 if racy else 0)
            if ok2 and real2:
                case_lines, idx, a, b = real2[0][:4]
                seg = segment(ctx, paths2, real2[0])
            fp, what = classify(case_lines[idx], a, b)
            rep = {"stream": stream, "ops": case_lines, "source": tag,
                   "first_difference_at_op": idx, "implementation": a, "specification": b,
                   "schedule_dependent": racy, "reproduced": "%d of %d re-runs of the unshrunk case" % (hits, total),
                   "trace": seg["trace"][:2000], "impl_output": seg["impl_output"][:2000]}
            if racy:
                ctx.log("stream %s: the case depends on the schedule (%d of %d re-runs differ); shrunk with %d runs per "
                        "candidate to %d ops" % (stream, hits, total, copies, len(case_lines) - 1))
            if stream in ("exact", "joinx") and fp != "krt:crash":
                # the runtime model (object of the runtime theorems) no longer behaves like the code: a broken
                # correspondence, not by itself a violation of the property (the other streams search for one)
                ctx.tie_broken("correspondence:%s" % stream,
                               "the runtime model and the real collection differ at op '%s'\n impl : %s\n model: %s"
                               % (case_lines[idx], a[:500], b[:500]), rep)
            else:
                record(ctx, fp, what, rep, True)
    ctx.log("stream %s: %d cases, %d lines, %s%s" % (
        stream, st["cases"], st["ops"], "agree" if st["agree"] else "DIFFER",
        (" (known class %s reproduced in %d flagged cases)" % (known_class(stream)[0], st["known_class_cases"]))
        if st["known_class_cases"] else ""))


def run_oracle(ctx, stream):
    """Second line, independent of the Lean side: the harness evaluates the property itself in Go, on the
    corpus files and on the generated cases of the stream."""
    files = []
    cdir = os.path.normpath(os.path.join(os.path.dirname(ctx.work), "..", "harness", "corpus", ctx.pid))
    if os.path.isdir(cdir):
        files += [os.path.join(cdir, f) for f in sorted(os.listdir(cdir)) if corpus_for(stream, f)]
    g = os.path.join(ctx.work, "%s.gen.ops" % stream)
    if os.path.exists(g):
        files.append(g)
    for path in files:
        out = os.path.join(ctx.work, "%s.oracle.verdict" % stream)
        if os.path.exists(out):
            os.remove(out)
        rc, log = ctx.harness("oracle", stream, path, out)
        if rc != 0 or not os.path.exists(out):
            ctx.tie_broken("oracle:%s" % stream, "harness oracle rc=%d on %s: %s" % (rc, os.path.basename(path), log[-2000:]))
            continue
        verdicts = ctx.read_lines(out)
        ctx.count("oracle.%s.cases" % stream, len(verdicts))
        ops = ctx.read_lines(path)
        cases = split_cases(ops)
        for i, v in enumerate(verdicts):
            if v.startswith("FAIL") and i < len(cases):
                s, e = cases[i]
                clause = v.split()[1] if len(v.split()) > 1 else "?"
                flagged = any(f in ops[s].split()[4:] for f in FLAGS)
                if clause.startswith("f6:") and flagged:
                    fp, what = known_class(stream)
                    ctx.violation(fp, what, {"stream": stream, "ops": ops[s:e], "oracle_verdict": v}, True)
                else:
                    record(ctx, "krt:oracle:%s" % clause,
                           "the Go-side evaluation of the property fails (%s)" % v,
                           {"stream": stream, "ops": ops[s:e], "oracle_verdict": v}, True)


def run(ctx):
    ctx.rule = ("cases = random histories (3-45 ops). krt/krtf6: a primary static collection and a fetched collection (static, a "
                "derived copy, a JoinCollection of two, or two collections): add/update/delete, conditional and no-op updates, "
                "A-B-A flips, Reset and DeleteObjects batches, keys moving between parents (across a barrier in krt, without one "
                "in krtf6), objects present before the derived collection starts, Register/RegisterBatch early and late, with and "
                "without existing state, on the primary, the first-level and the chained collection; NewCollection, "
                "NewManyCollection, NewSingleton with 0-2 fetches built from 9 filter atoms (key, keys, object name, selects - also "
                "with a nil map -, selectsNonEmpty, label, namespace index, value index, generic; optional gating), an index "
                "present from the start and a multi-key index created late (named twice and unnamed), a fetch through a "
                "multi-key index, output key = input key / one of several keys / a function of the input's value, Reset with "
                "a key twice, NewManyFromNothing, FetchOrList without a context. join/joinr/joinm/joinn/joinnr: JoinCollection "
                "(checked, unchecked, over derived collections, over a NewStatic singleton), JoinWithMergeCollection, "
                "NestedJoinWithMergeCollection with overlapping keys, namespace and value indexes; on top of the join a "
                "singleton that fetches it, a collection with the join as primary input and one over the singleton. misc: "
                "NewStaticCollection(initial values), NewStatic.Set, FetchOne, index.Fetch, PartialFetch, DiscardResult, "
                "UnregisterHandler. idxc: index.AsCollection, a collection grouped by it and one through FetchIndexObjects. "
                "mem: the memory config store (two kinds, written before and after Run). exact/joinx: the runtime models step "
                "by step (Reset batches, held queue, late index). Observations = List/GetKey/Index.Lookup at quiescent points + every subscriber's stream; distinct = hash "
                "of (ops, observations); non-trivial = at least one op")
    ctx.assumptions = [
        "the derived collection's inputs are krt static collections, joins, singletons or (stream inf) one informer on the fake client",
        "the transformation function is a pure function of its input and of what it fetches (krt's contract)",
        "distinct inputs never hold the same output key in the recorded mappings when a batch is applied (DisjointAtApply); "
        "histories that violate it without a barrier are the known finding F6 and are checked apart (stream krtf6)",
        "join: a key is changed by one joined collection at a time between quiescent points while subscribers exist; otherwise "
        "the known finding F10 applies (stream joinr, checked apart)",
        "quiescence = all goroutines of the testing/synctest bubble durably blocked (Go runtime semantics)",
        "joinn: the outer collection of a NestedJoinWithMergeCollection changes at quiescent points only (sync before and after "
        "every o.add / o.del / o.touch); otherwise the known finding F13 applies (stream joinnr, checked apart)",
        "krt with a JoinCollection as fetched collection (sj): a fetched key is changed by one of the two joined collections "
        "between barriers, otherwise the case answers `undisciplined` (F10 inside the fetched join)",
        "merge joins: the merge function never returns nil for a non-empty input in joinn (nestedjoinmerge dereferences it); in "
        "joinm it returns nil only when the first value is v3",
        "misc: while an input discards its result (DiscardResult) its key is compared only when the result it must keep is known "
        "(discarding began at a quiescent point); otherwise the key is masked",
        "inf: informer-backed collections deliver the existing objects to every new handler whatever runExistingState says "
        "(informer.go documents this); the specification's base for such subscribers is empty",
        "krt.NewStatic singletons are changed and subscribed to sequentially from one goroutine (Set calls the handlers inline; "
        "its registration is not atomic with Set by design)",
        "WithObjectAugmentation is exercised with the identity function only",
        "exact: when the queue is held (pause ... resume) for a transformation with key / index atoms (cases flagged hk) the "
        "EVENTS of the held block are not compared, its contents are (krt's reverse index recomputes a superset of inputs "
        "earlier than the model's full scan: same contents, other event timing); all other steps are compared event by event",
    ]
    ctx.trusted += [
        "harness/c16/facts.go (go/ast extractor of the lock facts: registration_under_lock, registration_one_critical_section, "
        "writers_hold_the_write_lock, registration_snapshot_in_same_span and the *_sites_present theorems rest on its output)",
        "harness/c16 prog.go outputs() / fetchOpts(): the interpreter of the data-described Transform handed to krt as the "
        "transformation function (its Lean twin is Spec.lean; the Go oracles use a third, separate evaluator)",
        "the barrier discipline and masking bookkeeping (disc / touch / retained / blind in the harness, noteSet / touchS / "
        "stepMisc in the Lean drivers): it decides which lines are compared and which belong to a known class",
        "testing/synctest entered from a plain binary through testing.Main (Go runtime: durably-blocked detection, fake clock)",
        "the contention settings of re-runs (GOMAXPROCS, busy goroutines): they only add schedules, never remove a difference",
    ]
    if not ctx.go_build():
        return
    # T-gen: source-level facts (go/ast) about registration / delivery under the collection lock, regenerated from
    # the checked tree; GenTie.lean proves them by `decide` (a stale table is never used)
    gen = os.path.join(os.path.dirname(os.path.dirname(os.path.abspath(__file__))), "lean", GEN)
    os.makedirs(os.path.dirname(gen), exist_ok=True)
    if os.path.exists(gen):
        os.remove(gen)
    rc, log = ctx.harness("table", "regfacts", gen)
    if rc != 0 or not os.path.exists(gen):
        ctx.tie_broken("harness-table:regfacts", "the fact extractor did not produce %s: rc=%s %s" % (GEN, rc, log[-2000:]))
        with open(gen, "w") as f:
            f.write("namespace IstioModel.Generated.C16\ndef regFacts : List (String × String × String × Bool × Bool × String × Bool) := []\n"
                    "end IstioModel.Generated.C16\n")
    proved = ctx.lean_prove(THEOREMS)
    if not ctx.build_drv():
        return
    run_stream(ctx, "krt", ctx.n(2500, 200000))
    run_stream(ctx, "krtf6", ctx.n(400, 8000))
    run_stream(ctx, "join", ctx.n(1200, 60000))
    run_stream(ctx, "joinr", ctx.n(300, 6000))
    run_stream(ctx, "joinm", ctx.n(600, 15000))
    run_stream(ctx, "joinn", ctx.n(600, 15000))
    run_stream(ctx, "joinnr", ctx.n(150, 3000))
    run_stream(ctx, "misc", ctx.n(800, 20000))
    run_stream(ctx, "idxc", ctx.n(600, 15000))
    run_stream(ctx, "inf", ctx.n(200, 3000))
    run_stream(ctx, "mem", ctx.n(600, 15000))
    # last: the exact correspondence of the runtime model (a difference here with no violation above ends as
    # `no-failing-input-found`)
    run_stream(ctx, "exact", ctx.n(1500, 40000))
    run_stream(ctx, "joinx", ctx.n(600, 15000))
    for stream in ("krt", "krtf6", "join", "joinr", "joinm", "joinn", "joinnr", "misc", "idxc", "inf", "mem"):
        run_oracle(ctx, stream)


def replay(ctx, path):
    obj = json.load(open(path))
    rep = obj.get("replay", {})
    ops = rep.get("ops") or (rep.get("extra") or {}).get("ops")
    stream = rep.get("stream") or "krt"
    if not ops:
        ctx.log("replay file has no ops; re-running the full check")
        return run(ctx)
    if not (ctx.build_drv() and ctx.go_build()):
        return
    p = os.path.join(ctx.work, "replay.ops")
    with open(p, "w") as f:
        f.write("\n".join(ops) + "\n")
    # (1) the recorded run itself, judged again by the Lean driver (independent of the tree and of the schedule)
    recorded_rejected = False
    if rep.get("trace") and rep.get("impl_output"):
        tr = os.path.join(ctx.work, "replay.recorded.trace")
        ri = os.path.join(ctx.work, "replay.recorded.impl")
        rm = os.path.join(ctx.work, "replay.recorded.model")
        for q, lines in ((tr, rep["trace"]), (ri, rep["impl_output"])):
            with open(q, "w") as f:
                f.write("\n".join(lines) + "\n")
        rc, err = ctx.drv(stream, tr, rm)
        if rc == 0:
            _, _, kn, real = scan(ctx, p, ri, rm, stream)
            if real:
                recorded_rejected = True
                ctx.log("recorded run, judged again by the Lean driver: rejected at op %d '%s' (spec: %s)"
                        % (real[0][1], real[0][0][real[0][1]], real[0][3][:200]))
            else:
                ctx.log("recorded run, judged again by the Lean driver: accepted - the specification no longer calls the "
                        "recorded observations a violation")
        else:
            ctx.log("recorded run: the Lean driver failed on the recorded trace (rc=%d)" % rc)
    # (2) the case on the tree under check: once plainly, then under contention (a schedule dependent case does not
    # show on every run)
    ok, impl, model, log = run_pair(ctx, stream, p, "replay")
    if not ok:
        ctx.tie_broken("stream-run:%s" % stream, log)
        return
    nc, nl, f6_cases, real = scan(ctx, p, impl, model, stream)
    ctx.account(stream, p, impl)
    runs = 1
    # how often did the recorded case differ when it was found? a rare one needs more runs to be seen again
    budget = 60 * COPIES
    m = re.match(r"(\d+) of (\d+)", str(rep.get("reproduced") or ""))
    if m and int(m.group(2)) > 0:
        rate = max(int(m.group(1)), 1) / float(int(m.group(2)))
        budget = int(min(60000, max(budget, 25.0 / rate)))
    elif obj.get("fingerprint", "").startswith("krt:oracle:"):
        budget = 200 * COPIES
    if not real and not obj.get("fingerprint", "").startswith("krt:oracle:"):
        hits, total, first, _ = reproduction(ctx, stream, ops, budget, "replay-stress", stop_at=1)
        runs += total
        if first is not None:
            real = [first]
            ctx.log("reproduced under contention (%d of %d re-runs differ)" % (hits, total))
    def again(fp, what, r):
        """the violation shows again: point at the replay file that was given (it has the recorded run)"""
        n = len(ctx.violations)
        ctx.violation(fp, what, r, True)
        if len(ctx.violations) > n:
            v = ctx.violations[-1]
            if os.path.abspath(v["path"]) != os.path.abspath(path):
                try:
                    os.remove(v["path"])
                except OSError:
                    pass
                v["path"] = path

    if obj.get("fingerprint", "").startswith("krt:oracle:") and not real:
        out = os.path.join(ctx.work, "replay.oracle.verdict")
        for i in range(1 + budget // COPIES):
            copies = 1 if i == 0 else COPIES
            with open(p, "w") as f:
                f.write(("\n".join(ops) + "\n") * copies)
            gmp, busy = CONTENTION[i % len(CONTENTION)]
            env = {"C16_BUSY": str(busy)}
            if gmp:
                env["GOMAXPROCS"] = gmp
            if os.path.exists(out):
                os.remove(out)
            rc, log = ctx.harness("oracle", stream, p, out, env_extra=env)
            vs = ctx.read_lines(out) if os.path.exists(out) else ["FAIL harness-stopped"]
            runs += copies
            for v in vs:
                if v.startswith("FAIL"):
                    clause = v.split()[1] if len(v.split()) > 1 else "?"
                    if clause.startswith("f6:") and any(f in ops[0].split()[4:] for f in FLAGS):
                        continue
                    ctx.log("the Go-side evaluation fails again (within %d runs under varying contention)" % runs)
                    again("krt:oracle:%s" % clause, "the Go-side evaluation of the property fails (%s)" % v,
                          {"stream": stream, "ops": ops, "oracle_verdict": v})
                    return
    if f6_cases and not real:
        fp, what = known_class(stream)
        ctx.violation(fp, what, {"stream": stream, "ops": ops}, True)
    for m in real[:1]:
        case_lines, idx, a, b = m[:4]
        fp, what = classify(case_lines[idx], a, b)
        again(fp, what, {"stream": stream, "ops": case_lines, "first_difference_at_op": idx,
                         "implementation": a, "specification": b})
    if not f6_cases and not real:
        ctx.log("replayed case: real krt and specification agree in %d runs under varying contention" % runs)
        if recorded_rejected:
            print("REPLAY-INCONCLUSIVE property=%s: the RECORDED run is a violation (the Lean driver rejects its trace again), "
                  "but %d runs of the case on this tree agree. The case depends on the schedule (recorded: %s). Exit 0 here means "
                  "'not seen again in %d runs', not 'proved fixed'." % (ctx.pid, runs, rep.get("reproduced") or "rate unknown", runs),
                  flush=True)


MANIFEST = {
    "level_text": ("Lean 4 proof + verified runtime monitor. (1) For all streams: the monitor run on every recorded subscriber "
                   "stream accepts exactly the streams that satisfy the statement's stream clause (per key a word of (Add Update* "
                   "Delete)*, Old = previous New, no duplicate add, no update/delete of an unknown key) and replay to the given "
                   "contents (monitorB_iff, sound and complete; late subscribers; per-key decomposition). (2) For an executable "
                   "model of krt's manyCollection bookkeeping under every interleaving of source changes and queue processing: at "
                   "quiescence contents = transformation of the current inputs, the stream is well formed for early and late "
                   "subscribers (registration as two steps: needed atomicity proved by a witness; that snapshot and Insert share "
                   "one critical section of the collection lock is a regenerated source fact, as is the WRITE lock around every Distribute and state write), dependency tracking is complete, "
                   "Index.Lookup is exact for any extractor and any creation time - under the input-level discipline Disciplined "
                   "(disciplined_runOK) and, without it, for KEY-PRESERVING one-to-one collections only (output key = input key: "
                   "state_correct_key_preserving). The statement without the discipline is refuted for one-to-many collections "
                   "(key_move_witness) and for one-to-one collections whose output key is not the input's "
                   "(one_to_one_by_value_witness) = finding F6; moves in which the old parent releases the key first are accepted "
                   "(old_parent_first_accepted). (3) For an executable model of the checked join's event path: correctness with "
                   "any number of events in flight under the discipline of the join stream from empty collections "
                   "(join_disciplined_correct) and, at run level, from populated collections that share NO key "
                   "(join_populated_correct: jrunOK rejects a shared key at the start). For a join created over collections "
                   "that already share keys - the usual start - what is proved is: once the initial events are handled, in any "
                   "order, processedState = the first-collection-wins contents (join_start_processed), and a subscriber that "
                   "registers at that quiescent point is served a well-formed stream that replays to the contents for every "
                   "later jrunOK run (join_start_late_subscriber); subscribers that exist while a shared key's initial events "
                   "are handled are finding F10 (join_overlap_at_start_witness). Late registration from processedState, and "
                   "the witnesses of finding F10. (4) The contents clause is specContents / joinContents / mergeContents ..., "
                   "recomputed in Lean for every observation of List/GetKey/Index.Lookup on real krt collections and evaluated a "
                   "second time in Go (oracles on every stream but the two model streams); both runtime models and the index "
                   "functions of late_index_correct are compared with the real collections step by step (streams exact, joinx). "
                   "(5) For an executable model of the static collection (UpdateObject, ConditionalUpdateObject, DeleteObject(s), "
                   "Reset incl. a key twice): the distributed stream is well formed and replays to the contents after any "
                   "sequence of changes, also for a late subscriber (static_exact, static_late_subscriber); the model runs in "
                   "the krt driver and every recorded stream of the primary collection must equal the model's, per key event "
                   "by event (pstream model-differs otherwise)."),
    "level_note": ("Partial: the real goroutine scheduling of krt is observed (random histories on real collections, exact "
                   "quiescence through a testing/synctest bubble; cases that depend on the schedule are re-run under contention), "
                   "not proved; the runtime models process a batch atomically and have one delivered stream. Anchors WITHOUT a "
                   "Lean runtime model or theorem (specification + verified monitor on real executions + Go oracle only): "
                   "processor.go (per-handler queues, pop/run, sync tracker - only the Insert/Distribute call sites are in the "
                   "source tie), the reverse index indexedDependencies of changedInputKeys (the model has the full scan it "
                   "pre-filters), mergejoin.go, nestedjoinmerge.go, singleton.go (NewStatic, NewSingleton, NewManyFromNothing; static.go now HAS a "
                   "model: StaticModel.lean), "
                   "informer.go, index.AsCollection, files.go. Trusted: Lean kernel + {propext, Classical.choice, Quot.sound}; "
                   "the Go harness and its interpreter of the shared Transform description; the barrier discipline bookkeeping "
                   "(implemented twice, Go and Lean, compared); the go/ast fact extractor. Outside: RecomputeTrigger; "
                   "WithObjectAugmentation beyond an identity function (observed: with a type that gets its labels only from "
                   "the augmentation, the first change of the fetched collection panics in objectChanged - unused in istio). "
                   "Known findings F6 (manyCollection key move, new parent applied first), F10 (join event conversion from live "
                   "state), F13 (nested merge join with the outer collection changing while events are in flight) are "
                   "classified apart; F11, F12, F13a, F14 (Reset with a duplicate key), F15 (static singleton GetKey ignores "
                   "the key) fixed in /repo (02571e4, f69274a, 5f967bb, 52e0780, 202ccd5)."),
    "technique": "Lean 4 verified stream monitor + abstract runtime models + specification recomputed on observations of real krt collections (T-mon/T-diff/T-gen)",
    "design_ref": "DESIGN.md section 5 C16",
}
