"""C08 - Generated RBAC decides every request as AuthorizationPolicy semantics say.

Proof: lean/IstioModel/C08/{Atoms,Theorems,Clause2}.lean - compiler correctness of an executable model of the
AuthorizationPolicy -> Envoy RBAC compiler (Model.lean) against Envoy's documented RBAC semantics
(Envoy.lean) and the policy semantics of the statement (Spec.lean), clause 2 included (compile_all_exact).
Tie: T-diff.  Stream `compile`: the REAL validator + config store + GetAuthorizationPolicies + ONE authz plugin
builder pair per case (BuildTCP / BuildHTTP(class) / BuildTCPRulesAsHTTPFilter, NewBuilder / NewBuilderForService /
NewWaypointTerminationBuilder) output, canonicalised, must equal the Lean compiler's output structurally.  Streams
`requests` / `tcp`: a Go reference RBAC interpreter (Go regexp = RE2) evaluates the REAL generated proto on
requests built from the policy constants and near misses; its decision and the Go transcription of the
statement must equal the Lean evalGs(compileAll) and specDecisionOn.
On break: harness `oracle` = the statement itself on the real generated filters: the two decisions must be
EQUAL on every chain (HTTP, TCP, TCP rules as HTTP filter) - no waiver; a disagreement is classified by the
single policy value(s) whose known loose reading explains every request of the case, anything else is `other`.
"""
import hashlib
import json
import os

THEOREMS = ["IstioModel.C08.Atoms", "IstioModel.C08.Theorems", "IstioModel.C08.Clause2"]
STREAMS = ("compile", "requests", "tcp")


def _cases(lines):
    starts = [k for k, l in enumerate(lines) if l.startswith("case")]
    for n, s in enumerate(starts):
        e = starts[n + 1] if n + 1 < len(starts) else len(lines)
        yield lines[s:e]


_FIRST = {}


def _fail_to_violation(stream, v, ops, rep):
    # v = "FAIL <kind>:<clause> class=<class> compiled=.. spec=.. req ..."
    parts = v.split()
    clause = parts[1] if len(parts) > 1 else "unknown"
    cls = "other"
    for p in parts:
        if p.startswith("class="):
            cls = p[6:]
    # a classified input class is the fingerprint by itself (same defect whatever the direction / listener); an
    # unclassified one carries a hash of its case, so that replays of different defects never share a file name
    fp = cls
    if cls == "other":
        # one replay per (chain kind, direction) and run: the first case found names it
        coarse = "%s:%s" % (clause, cls)
        fp = _FIRST.setdefault(coarse, "%s:%s" % (coarse, hashlib.sha1("\n".join(ops[1:]).encode()).hexdigest()[:8]))
    what = ("generated RBAC and AuthorizationPolicy semantics disagree (%s, input class %s): %s"
            % (clause, cls, " ".join(parts[2:6])))
    return (fp, what, {"stream": stream, "ops": ops, "oracle_verdict": v, "correspondence": rep})


def _strip_reqs(case):
    return [l for l in case if not l.startswith("req")]


def oracle(ctx, stream, case_lines, rep):
    """Property-level search on the implementation: the shrunk case (with its own requests and with requests derived
    from the policy constants), then the validator-accepted cases on which model and implementation differ (same two
    readings), then everything generated."""
    cands = []
    p = os.path.join(ctx.work, "%s.oracle.ops" % stream)
    with open(p, "w") as f:
        f.write("\n".join(case_lines) + "\n")
        # the shrinker may have dropped the `req` lines (or the build the requests were made for): a case without
        # `req` lines makes the harness derive requests from the policy constants on http / tcp / tcphttp builds
        f.write("\n".join(_strip_reqs(case_lines)) + "\n")
    cands.append(p)
    g = os.path.join(ctx.work, "%s.gen.ops" % stream)
    impl = os.path.join(ctx.work, "%s.run.impl" % stream)
    model = os.path.join(ctx.work, "%s.run.model" % stream)
    if os.path.exists(g) and os.path.exists(impl) and os.path.exists(model):
        lo, li, lm = ctx.read_lines(g), ctx.read_lines(impl), ctx.read_lines(model)
        if len(li) == len(lo) and len(lm) == len(lo):
            picked, k = [], 0
            for c in _cases(lo):
                seg = range(k, k + len(c))
                k += len(c)
                if c[0].split()[3:4] == ["valid=1"] and any(li[j] != lm[j] for j in seg):
                    picked.append(c)
                    if len(picked) >= 40:
                        break
            if picked:
                d = os.path.join(ctx.work, "%s.differing.ops" % stream)
                with open(d, "w") as f:
                    for c in picked:
                        if stream != "compile":
                            f.write("\n".join(c) + "\n")
                        f.write("\n".join(_strip_reqs(c)) + "\n")
                cands.append(d)
    if os.path.exists(g) and stream != "compile":
        cands.append(g)
    for ops in cands:
        out = os.path.join(ctx.work, os.path.basename(ops) + ".verdict")
        rc, log = ctx.harness("oracle", stream, ops, out)
        if rc != 0 or not os.path.exists(out):
            continue
        verdicts = ctx.read_lines(out)
        cases = list(_cases(ctx.read_lines(ops)))
        known = set(k.get("fingerprint") for k in ctx.known if k.get("status") == "known")
        for i, v in enumerate(verdicts):
            if v.startswith("FAIL") and i < len(cases):
                found = _fail_to_violation(stream, v, cases[i], rep)
                # an input of an already known class does not explain a NEW difference between model and
                # implementation: keep searching; if nothing else fails the run ends no-failing-input-found
                if found[0] in known:
                    continue
                return found
    return None


def run_oracle_all(ctx, stream, ops):
    """Second line: the statement evaluated on every generated case, independently of the model."""
    out = os.path.join(ctx.work, os.path.basename(ops) + ".verdict")
    rc, log = ctx.harness("oracle", stream, ops, out)
    if rc != 0 or not os.path.exists(out):
        ctx.tie_broken("oracle-run:" + stream, log)
        return
    verdicts = ctx.read_lines(out)
    cases = list(_cases(ctx.read_lines(ops)))
    ctx.count("oracle.%s.cases" % stream, len(verdicts))
    for i, v in enumerate(verdicts):
        if v.startswith("FAIL") and i < len(cases):
            ctx.count("oracle.%s.fail" % stream)
            fp, what, robj = _fail_to_violation(stream, v, cases[i], None)
            ctx.count("oracle.%s.fail.%s" % (stream, fp if ":other" not in fp else v.split()[1] + ":other"))
            ctx.violation(fp, what, robj, True)


def hyps_coverage(ctx, stream, ops):
    """How much of the generated (policy, request) space satisfies the theorems' hypotheses, and a
    re-confirmation of their conclusion there (driver stream `hyps`, Lean side only)."""
    out = os.path.join(ctx.work, "%s.hyps.out" % stream)
    if ctx.tier == "quick":
        # evaluating the decidable hypotheses is the slowest step of the run: quick tier samples the first 400 cases
        head = os.path.join(ctx.work, "%s.hyps.ops" % stream)
        with open(head, "w") as f:
            for c in list(_cases(ctx.read_lines(ops)))[:400]:
                f.write("\n".join(c) + "\n")
        ops = head
    rc, err = ctx.drv("hyps", ops, out)
    if rc != 0:
        ctx.tie_broken("hyps-stream:" + stream, err)
        return
    n = inscope = exact = 0
    for l in ctx.read_lines(out):
        if not l.startswith("hyps="):
            continue
        f = dict(t.split("=", 1) for t in l.split())
        n += 1
        if f["hyps"] == "1":
            inscope += 1
            # compile_all_exact: under its hypotheses the two decisions are EQUAL on every chain,
            # translatable or not (a difference here means the Lean driver contradicts a proved theorem)
            if f["compiled"] != f["spec"]:
                ctx.tie_broken("theorem-instance:compile_all_exact",
                               "hypotheses hold but the Lean decisions differ: " + l)
            # ext_authz_asked_chain: ... and, with isolated provider names, the ext_authz filters enabled are those of the
            # providers the statement says must be asked
            if f.get("iso") == "1" and f.get("ext") != f.get("ask"):
                ctx.tie_broken("theorem-instance:ext_authz_asked_chain",
                               "hypotheses hold but the Lean driver's ext_authz set differs from the statement's: " + l)
            if f["tr"] == "1":
                exact += 1
    ctx.count("hyps.%s.requests" % stream, n)
    ctx.count("hyps.%s.in_scope_of_compile_all_exact" % stream, inscope)
    ctx.count("hyps.%s.in_scope_and_fully_translatable" % stream, exact)


def nontrivial(cur, curo):
    return any(l.startswith(("rule", "from", "to", "when")) for l in cur)


def run(ctx):
    ctx.rule = ("cases = 1-5 AuthorizationPolicies (ALLOW/DENY/AUDIT/CUSTOM, dry-run, root/workload/other namespace, selector or targetRefs) "
                "for a sidecar / gateway / Gateway API gateway / waypoint (per-service chain or termination layer), with 0-3 rules "
                "of from/to/when over constant pools, values in exact/prefix*/*suffix/*/odd forms, values and notValues, IPv4+IPv6 blocks; stream compile "
                "adds values the real validator rejects and trust-domain aliases, builds TCP/HTTP(class)/tcphttp on one builder; streams requests/tcp: validator-"
                "accepted policies + 10-20 requests from the policy constants and near misses (one char off, case flip, prefix/suffix "
                "boundary, other namespace/sa/trust domain, CIDR edges, empty); distinct = hash of (ops, implementation outputs); "
                "non-trivial = at least one rule")
    ctx.assumptions = [
        "Envoy's RBAC evaluator behaves as documented (Envoy.lean: ALLOW/DENY/LOG, policy = some permission AND some principal, "
        "StringMatcher/HeaderMatcher/CidrRange/MetadataMatcher semantics, safe_regex = RE2 full match); no Envoy binary in the sandbox",
        "peer certificates carry Istio SPIFFE identities spiffe://<td>/ns/<ns>/sa/<sa> (non-empty td, no '/' inside the names); request "
        "strings contain no newline; header names are lower-cased and repeated headers joined by Envoy before matching",
        "path = :path without query/fragment; IPv4 and IPv6 ipBlocks (netip grammar incl. zones, 4-in-6), an address is only "
        "ever inside a block of its own family",
        "JWT claims are what envoy.filters.http.jwt_authn wrote to dynamic metadata (request attributes are inputs)",
        "trust-domain bundle without '*' / '/' entries (mesh config validation admits DNS-label trust domains only); principal values "
        "with '*', wildcard-free and '*suffix' trust-domain parts are inside migration_sem, a 'prefix*' part is finding 5, "
        "`when source.principal` values with a '*suffix' part and two or more `from` entries are tied by the differential only",
        "CUSTOM: the external authorizer's answer is outside the statement (taken to allow for the decision); WHO is asked and WHERE "
        "the check request goes is inside (ext_authz_asked_chain, ext_authz_targets_chain; oracle clause authorizer-asked compares "
        "the consulted filters' targets - kind, cluster - with the mesh config's); of the ext_authz config kind, cluster, authority "
        "/ URI host, failure mode, status on error and path prefix are modelled and compared, timeout / header lists / request body "
        "settings must have the defaults the harness never changes (else UNEXPECTED); provider entries with config errors (port, "
        "service lookup, status, path prefix, name, duplicates) are generated in the validator-rejected part and the corpus only",
        "CUSTOM-first: the harness concatenates the CUSTOM builder's filters before the Local builder's, as the listener builder "
        "does (listener.go / listener_waypoint.go); that ordering site itself is not executed - chain order beyond the two builders' "
        "outputs is outside this check",
        "JWT: request.auth.principal is defined when iss and sub are non-empty strings; the exactness theorem for requestPrincipals "
        "additionally assumes no '/' in sub (hypothesis jwtOK, per matcher); claim values that are numbers / bools match nothing",
        "path templates: statement and model share one segment matcher (templateMatch); the Go interpreter evaluates them "
        "independently by regex translation",
        "service registries other than Kubernetes / External are not modelled (a waypoint service is one of the two)",
        "the main theorems' decidable hypotheses hold on about 88% of the generated (policy, request) pairs; outside them the tie is "
        "the differential and the oracle only",
        "Envoy accepts the generated config: protoc-gen-validate constraints (ValidateAll on every built RBAC / ext_authz filter); "
        "constraints Envoy checks only at runtime are not covered",
    ]
    ctx.trusted.append("lean/IstioModel/C08/Envoy.lean: Envoy RBAC semantics written from documentation (not executed against Envoy)")
    ctx.trusted.append("harness/c08/interp.go + spec.go: Go reference RBAC interpreter (regex via Go regexp/RE2) and Go transcription of the statement")
    proved = ctx.lean_prove(THEOREMS)
    if not ctx.build_drv():
        return
    if not ctx.go_build():
        return
    n = {"compile": ctx.n(1500, 30000), "requests": ctx.n(1200, 30000), "tcp": ctx.n(700, 15000)}
    for stream in STREAMS:
        ctx.diff_stream(stream, n[stream], oracle=oracle, nontrivial=nontrivial)
    for stream in STREAMS:
        g = os.path.join(ctx.work, "%s.gen.ops" % stream)
        if os.path.exists(g) and stream != "compile":
            run_oracle_all(ctx, stream, g)
            hyps_coverage(ctx, stream, g)
    # corpus files carry witnesses of findings: the oracle runs on them as well
    cdir = os.path.join(os.path.dirname(os.path.dirname(os.path.abspath(__file__))), "harness", "corpus", ctx.pid)
    if os.path.isdir(cdir):
        for f in sorted(os.listdir(cdir)):
            if f.endswith(".ops"):
                run_oracle_all(ctx, f.split(".")[0], os.path.join(cdir, f))
    # what the generated input space contains (harness `stats`): proxy types, the clause by which each policy
    # attaches, build kinds, value forms, targetRef kinds
    for stream in STREAMS:
        g = os.path.join(ctx.work, "%s.gen.ops" % stream)
        if os.path.exists(g):
            out = os.path.join(ctx.work, "%s.stats" % stream)
            rc, log = ctx.harness("stats", stream, g, out)
            if rc == 0 and os.path.exists(out):
                for l in ctx.read_lines(out):
                    k, _, n = l.rpartition(" ")
                    if k and n.isdigit():
                        ctx.count("%s.gen.%s" % (stream, k), int(n))
    # decision mix of the judged requests (implementation side): <generated filters> <statement>, authorizer asked or not
    for stream in ("requests", "tcp"):
        impl = os.path.join(ctx.work, "%s.run.impl" % stream)
        if os.path.exists(impl):
            for l in ctx.read_lines(impl):
                t = l.split()
                if len(t) >= 4 and t[0] in ("allow", "deny") and t[1] in ("allow", "deny"):
                    ctx.count("%s.decision.compiled-%s.statement-%s" % (stream, t[0], t[1]))
                    ctx.count("%s.decision.authorizer-%s" % (stream, "asked" if t[2] != "ext=-" else "not-asked"))
    # count validator verdicts of the generated cases
    for stream in STREAMS:
        g = os.path.join(ctx.work, "%s.gen.ops" % stream)
        if os.path.exists(g):
            for l in ctx.read_lines(g):
                if l.startswith("case"):
                    ctx.count("%s.validator.%s" % (stream, "accepted" if l.endswith("valid=1") else "rejected"))


def replay(ctx, path):
    # a replay run re-records the violation under the name derived from its fingerprint: never rewrite a replay file
    # that existed before - neither the file that is replayed nor (when a COPY is replayed) the original it came from
    rdir = os.path.join(os.path.dirname(os.path.dirname(os.path.abspath(__file__))), "replays")
    before = {}
    for p in [path] + ([os.path.join(rdir, f) for f in os.listdir(rdir) if f.startswith(ctx.pid + "-")] if os.path.isdir(rdir) else []):
        try:
            with open(p, "rb") as f:
                before[p] = f.read()
        except OSError:
            pass
    try:
        return _replay(ctx, path)
    finally:
        for p, original in before.items():
            try:
                with open(p, "rb") as f:
                    changed = f.read() != original
                if changed:
                    with open(p, "wb") as f:
                        f.write(original)
            except OSError:
                pass


def _replay(ctx, path):
    obj = json.load(open(path))
    rep = obj.get("replay", {})
    ops = rep.get("ops") or (rep.get("extra") or {}).get("ops")
    stream = rep.get("stream") or (rep.get("extra") or {}).get("stream") or "requests"
    if not ops:
        ctx.log("replay file has no ops; re-running the full check")
        return run(ctx)
    if not (ctx.build_drv() and ctx.go_build()):
        return
    p = os.path.join(ctx.work, "replay.ops")
    with open(p, "w") as f:
        f.write("\n".join(ops) + "\n")
    ok, impl, model, log = ctx.run_pair(stream, p, "replay")
    m = ctx.compare(stream, p, impl, model)[2] if ok else None
    found = oracle(ctx, stream, ops, m.to_json() if m else None)
    if found:
        ctx.violation(found[0], found[1], found[2], True)
    elif m is not None:
        ctx.tie_broken("correspondence:%s" % stream, "replayed case still differs", m.to_json())
    if ok:
        ctx.account(stream, p, impl)


MANIFEST = {
    "level_text": ("Lean 4 compiler-correctness proof: an executable model of Istio's AuthorizationPolicy -> Envoy RBAC compiler "
                   "(model.New/Generate, every generator incl. JWT and metadata ones, matcher.*, MigrateTrustDomain with aliases, Builder.build "
                   "for ALLOW/DENY/AUDIT/CUSTOM, dry-run, ShouldAttachPolicy / ListAuthorizationPolicies incl. waypoints, the authz plugin's lazy "
                   "cache) is proved, against Envoy's documented RBAC semantics, to decide every request EXACTLY as the statement says on HTTP "
                   "and TCP chains, clause 2 included (compile_all_exact: ALLOW rule with any inexpressible field matches nothing - "
                   "allow_rule_dropped; other actions are enforced on the remaining conditions - deny_rule_remaining), with nothing assumed "
                   "translatable; each value->matcher translation has its own matcher_correct_* theorem, where one is false the exact exception "
                   "is proved with a counterexample. Selection: selectPolicies_eq_applies proves the code's control flow equal to an "
                   "attachment rule written independently from the API documentation (selector / targetRefs / waypoint clauses). Plugin: "
                   "plugin_cache_transparent / plugin_call_exact (every call on a shared builder yields the fresh result; nothing on sidecar "
                   "outbound). Filter order: the decision is order-independent (decision_order_independent); the order AUDIT, DENY, ALLOW "
                   "after CUSTOM is a structural property tied by the differential, its semantic content is deny_short_circuits (the DENY "
                   "filter answers before ALLOW is consulted). The model is tied to /repo on every run by a structural differential against "
                   "the real validator / config store / GetAuthorizationPolicies / plugin builder output and a request-level differential "
                   "through a reference RBAC interpreter."),
    "level_note": ("Trusted: Lean kernel + {propext, Classical.choice, Quot.sound}; Envoy semantics written from docs (no Envoy in sandbox); "
                   "the hand-written model (tied by differential testing on ~3600 policy sets / ~26000 requests quick, 75000 / 600000 "
                   "thorough); Go reference interpreter and Go spec. Main theorems hold under decidable hypotheses evaluated on generated "
                   "cases (hypsOnB: per matcher - values inside the proved matcher scope and, only where a policy reads them, Istio-form "
                   "peer names / non-empty header values; plain trust-domain bundle, no `prefix*` trust-domain part; distinct generated "
                   "names) - about 88% of the generated (policy, request) pairs. External authorizer of CUSTOM assumed to allow; path "
                   "templates via a shared matcher; a `when` key naming no attribute (rejected by validation) loses the rule under every "
                   "action in statement and code (unknown_key_rule_lost). Known findings: unanchored namespace regex, requestPrincipals "
                   "prefix split, header `*` matches an empty value, `prefix*` trust-domain part rewritten to the mesh trust domains; fixes: "
                   "`when source.trustDomain` values with '/' rejected by validation; hardening: dry-run CUSTOM policy enforced as DENY."),
    "technique": "Lean 4 compiler-correctness theorems over an exact model of the RBAC generators + structural and request-level differential with the real Go builder",
    "design_ref": "DESIGN.md section 5 C08",
}
