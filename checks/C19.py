"""C19 - Sidecar injection decides by the documented precedence and is idempotent.

Proof (Lean 4):
  lean/IstioModel/C19/Spec.lean      specDecision - the documented cascade
  lean/IstioModel/C19/Model.lean     model (abstract row) and injectRequiredC (concrete pods/configs, selector matching)
  lean/IstioModel/C19/Theorems.lean  enumeration complete, model = spec, precedence clauses of the spec, concrete refines abstract
  lean/IstioModel/C19/MonitorTheorems.lean  monitors sound and complete (preservesB_iff, idempotentB_iff, judge_*_sound/complete)
  lean/IstioModel/C19/Lemmas.lean    helper lemmas (not counted)
  lean/IstioModel/C19/GenTie.lean    inject_table_eq_spec / model_eq_impl / decision_deterministic / precedence clauses about the
                                     table of the REAL injectRequired, regenerated on every run (T-gen, exhaustive, decide +kernel)
Tie:
  T-gen  harness `table`: real injectRequired on all 1200 abstract rows x 10 realisation variants -> Generated/C19Table.lean
  T-diff stream `decide`: real injectRequired + real LabelSelectorAsSelector/Matches on random concrete pods/configs vs Lean model
  T-mon  stream `inject`: the real webhook path (Webhook.inject -> injectRequired, injectPod) once and twice on every loadable
         fixture of pkg/kube/inject/testdata/inject and on generated pods, reduced pods judged by the Lean monitors
On break: harness `oracle` states the property directly on the real code (documented precedence table; inject twice == once;
user containers/volumes preserved) and yields the failing row / pod.
"""
import json
import os

THEOREMS = ["IstioModel.C19.Theorems", "IstioModel.C19.MonitorTheorems", "IstioModel.C19.GenTie"]
GEN = "IstioModel/Generated/C19Table.lean"
NVARIANTS = 10


def _case_slices(lines):
    starts = [k for k, l in enumerate(lines) if l.startswith("case")]
    return [(s, starts[i + 1] if i + 1 < len(starts) else len(lines)) for i, s in enumerate(starts)]


def oracle(ctx, stream, case_lines, rep):
    """Property-level search on the implementation: first the shrunk case, then everything generated."""
    cands = []
    p = os.path.join(ctx.work, "%s.oracle.ops" % stream)
    with open(p, "w") as f:
        f.write("\n".join(case_lines) + "\n")
    cands.append(p)
    g = os.path.join(ctx.work, "%s.gen.ops" % stream)
    if os.path.exists(g):
        cands.append(g)
    for ops in cands:
        out = ops + ".verdict"
        if os.path.exists(out):
            os.remove(out)
        rc, log = ctx.harness("oracle", stream, ops, out)
        if rc != 0 or not os.path.exists(out):
            continue
        verdicts = ctx.read_lines(out)
        lines = ctx.read_lines(ops)
        sl = _case_slices(lines)
        for i, v in enumerate(verdicts):
            if v.startswith("FAIL") and i < len(sl):
                clause = v.split()[1]
                s, e = sl[i]
                return ("%s:%s" % (stream, clause),
                        "sidecar injection (%s) violates clause '%s' on the real code: %s" % (stream, clause, v),
                        {"stream": stream, "ops": lines[s:e], "oracle_verdict": v, "correspondence": rep})
    return None


def table_oracle(ctx):
    """The real injectRequired against the independent Go statement of the documented precedence, all rows x variants.
    Returns list of FAIL lines (empty = OK) or None if the oracle could not run."""
    out = os.path.join(ctx.work, "table.verdict")
    if os.path.exists(out):
        os.remove(out)
    rc, log = ctx.harness("oracle", "table", "-", out)
    if rc != 0 or not os.path.exists(out):
        ctx.tie_broken("oracle:table", "table oracle did not run: rc=%s %s" % (rc, log[-2000:]))
        return None
    lines = ctx.read_lines(out)
    fails = [l for l in lines if l.startswith("FAIL")]
    if not fails and not any(l.startswith("OK") for l in lines):
        ctx.tie_broken("oracle:table", "table oracle printed no verdict")
        return None
    return fails


CLAUSE_ORDER = ["nondeterministic-or-panic", "host-network-never", "ignored-namespace-never", "illegal-policy-disables",
                "label-over-annotation", "annotation-over-selectors", "never-selector-over-always",
                "always-selector-over-policy", "namespace-policy"]


def report_table_fails(ctx, fails):
    """One violation, named after the highest-precedence clause that fails (a single slip in the cascade shows up under
    several lower clauses as well; all failing rows go into the replay)."""
    by_clause = {}
    for l in fails:
        by_clause.setdefault(l.split()[1], []).append(l)
    clause = sorted(by_clause, key=lambda c: CLAUSE_ORDER.index(c) if c in CLAUSE_ORDER else 99)[0]
    ls = by_clause[clause]
    ctx.violation("decision:%s" % clause,
                  "injectRequired deviates from the documented precedence on %d row realisations (first clause: %s, %d rows), e.g. %s"
                  % (len(fails), clause, len(ls), ls[0]),
                  {"stream": "table", "clause": clause, "failing_rows": (ls + [l for l in fails if l not in ls])[:80],
                   "n_failing": len(fails), "by_clause": {c: len(v) for c, v in by_clause.items()}}, True)


def gen_table(ctx):
    gen = os.path.join(os.path.dirname(os.path.dirname(os.path.abspath(__file__))), "lean", GEN)
    os.makedirs(os.path.dirname(gen), exist_ok=True)
    if os.path.exists(gen):
        os.remove(gen)  # never prove against a stale table
    rc, log = ctx.harness("table", "Table", gen)
    ctx.log("table: rc=%d %s" % (rc, log.strip()[-300:]))
    if rc != 0 or not os.path.exists(gen):
        # a row panicked or was unstable: the oracle names it
        fails = table_oracle(ctx)
        if fails:
            report_table_fails(ctx, fails)
        else:
            ctx.tie_broken("table-generation", "harness `table` failed: " + log[-3000:])
        return False
    rows = os.path.join(ctx.work, "table.rows")
    if os.path.exists(rows):
        n_inj = 0
        for l in ctx.read_lines(rows):
            idx, res, desc = l.split(" ", 2)
            n_inj += int(res)
            sample = None
            if idx in ("7", "733"):
                sample = {"stream": "table", "row": desc, "real_injectRequired": bool(int(res))}
            ctx.note_case("table " + l, True, sample)
        ctx.count("table.rows", 1200)
        ctx.count("table.rows.inject", n_inj)
        ctx.count("table.variants", NVARIANTS)
        ctx.evaluations += 1200 * (NVARIANTS - 1)  # the other realisation variants of every row
    return True


def inject_file(ctx, tag, ops):
    """T-mon on one ops file: real webhook path (harness exec -> trace), Lean monitors on the trace, Go oracle on the same cases.
    Returns (n_cases, ok)."""
    import hashlib
    import re
    import urllib.parse
    base = os.path.join(ctx.work, "inject.%s" % re.sub(r"[^A-Za-z0-9_.-]", "_", tag))
    trace, mon, ver = base + ".trace", base + ".mon", base + ".verdict"
    for p in (trace, mon, ver):
        if os.path.exists(p):
            os.remove(p)
    # the oracle (a second, independent run of the real code on the same cases) runs concurrently with exec + monitor
    import threading
    oracle_res = {}

    def _oracle():
        oracle_res["rc"], oracle_res["log"] = ctx.harness("oracle", "inject", ops, ver)

    th = threading.Thread(target=_oracle)
    th.start()
    rc, log = ctx.harness("exec", "inject", ops, trace)
    if rc != 0 or not os.path.exists(trace):
        th.join()
        ctx.tie_broken("stream-run:inject", "harness exec inject rc=%d: %s" % (rc, log[-3000:]), {"ops_file": tag})
        return 0, False
    rc, err = ctx.drv("inject", trace, mon)
    th.join()
    if rc != 0:
        ctx.tie_broken("stream-run:inject", "lean driver rc=%d: %s" % (rc, err[-3000:]), {"ops_file": tag})
        return 0, False
    rc, log = oracle_res.get("rc", 1), oracle_res.get("log", "")
    if rc != 0 or not os.path.exists(ver):
        ctx.tie_broken("oracle:inject", "oracle did not run: rc=%s %s" % (rc, log[-2000:]))
        return 0, False
    op_lines = ctx.read_lines(ops)
    cases = [op_lines[s:e] for s, e in _case_slices(op_lines)]
    tr, mo, ve = ctx.read_lines(trace), ctx.read_lines(mon), ctx.read_lines(ver)
    if len(tr) != len(mo):
        ctx.tie_broken("stream-run:inject", "monitor answered %d lines for %d trace lines" % (len(mo), len(tr)))
        return 0, False
    # split the trace per case
    tstarts = [k for k, l in enumerate(tr) if l.startswith("case")]
    ok = True
    per_base = {}
    rows_seen = ctx.extra.setdefault("_rows_seen", {})
    if not (len(tstarts) == len(cases) == len(ve)):
        ctx.tie_broken("stream-run:inject", "cases=%d trace cases=%d oracle verdicts=%d" % (len(cases), len(tstarts), len(ve)))
        return 0, False
    for i, c in enumerate(cases):
        s = tstarts[i]
        e = tstarts[i + 1] if i + 1 < len(tstarts) else len(tr)
        seg = tr[s:e]
        checks = [mo[k] for k in range(s, e) if tr[k] == "check"]
        lean_v = checks[0] if checks else "FAIL incomplete-trace"
        go_v = ve[i]
        status = next((l.split()[1] for l in seg if l.startswith("status ")), "?")
        ctx.count("inject.status.%s" % status)
        base = (c[1].split() + ["?", "?"])[1].split("+")[0] if len(c) > 1 else "?"
        per_base.setdefault(base, [0, 0])
        per_base[base][0] += 1
        per_base[base][1] += status == "injected"
        opk = c[1].split() if len(c) > 1 else ["?"]
        ctx.count("inject.op.%s" % opk[0])
        if opk[0] in ("kubeinject-pod", "redecide-kube") and len(opk) > 2:
            ctx.count("inject.kube-kind.%s" % opk[2])
        if opk[0] in ("redecide", "redecide-kube"):
            ctx.count("inject.redecide.%s.%s" % (opk[-1], status))
        for l in seg:
            if l.startswith("row "):
                t = l.split()
                rows_seen.setdefault(t[1], set()).add(t[2])
                if len(t) > 3:
                    ctx.count("inject.decision-branch.%s.%s" % (t[1], t[3]))   # deciding clause of the documented cascade, per call site
            if l.startswith("feat "):
                for ft in (l.split()[1].split(",") if l.split()[1] != "-" else []):
                    ctx.count("inject.feature.%s" % ft)
        if status == "unloadable":
            # a configuration / input of the check that does not load is a broken tie, never a pass (review 3, H1)
            ctx.tie_broken("inject-unloadable",
                           "a case of the inject stream did not load (rendering %s): %s" % (base, next((l for l in seg if l.startswith("status ")), "")[:400]),
                           {"stream": "inject", "ops": c})
            ok = False
        if len(c) > 1:
            ctx.count("inject.rendering.%s" % (c[1].split() + ["?", "?"])[1].split("+")[0])
            for m in (c[1].split() + ["?", "?"])[1].split("+")[1:]:
                ctx.count("inject.modifier.%s" % m)
            ctx.count("inject.source.%s" % c[1].split()[0])
        canon = "inject\n" + "\n".join(c[1:]) + "\n" + hashlib.sha1("\n".join(l for l in seg[2:] if not l.startswith("status")).encode()).hexdigest()
        sample = None
        if status == "injected" and len(c) > 1 and c[1].startswith("fixture") and not any(x.get("stream") == "inject" for x in ctx.samples):
            sample = {"stream": "inject", "ops": c[:2], "trace_excerpt": [l[:160] for l in seg if l[:2] in ("c ", "i ", "v ")][:8],
                      "lean_monitor": lean_v, "go_oracle": go_v}
        ctx.note_case(canon, status == "injected", sample)
        lt, gt = lean_v.split(), go_v.split()
        ctx.count("inject.verdict.%s" % "-".join(gt[:2]))
        # the oracle's exact classification of the known findings F10e / F10g (the Lean monitor says "idempotent <component>")
        known_class = gt[0] == "FAIL" and gt[1] in ("idempotent-podports-user-proxy-ports", "idempotent-sidecar-env-order-cluster-vars",
                                                    "cronjob-pod-template-annotations-ignored")
        # clauses only the Go oracle can see (labels / env values are digests in the reduced pods)
        go_only = gt[0] == "FAIL" and gt[1] in ("network-label", "network-env", "path-env", "injected-annotations", "status-fields", "template-funcs")
        if lt[:2] != gt[:2] and not (known_class and lt[0] == "FAIL") and not go_only:
            ctx.tie_broken("monitor-vs-oracle:inject",
                           "the Lean monitor and the Go oracle judge the same run differently: lean=%r oracle=%r" % (lean_v, go_v),
                           {"stream": "inject", "ops": c})
            ok = False
        bad = lean_v if lt[0] == "FAIL" else (go_v if gt[0] == "FAIL" else None)
        if bad:
            nviol = len(ctx.violations)
            clause = gt[1] if known_class else ("-".join(lean_v.split()[1:3]) if lt[0] == "FAIL" else gt[1])
            ctx.violation("inject:%s" % clause,
                          "the real webhook inject path violates '%s' (%s): lean monitor: %s ; go oracle: %s"
                          % (clause, " ".join(c[1].split()[:3])[:120] if len(c) > 1 else "?", lean_v, urllib.parse.unquote(go_v)[:300]),
                          {"stream": "inject", "ops": c, "lean_monitor": lean_v, "oracle_verdict": urllib.parse.unquote(go_v),
                           "reduced_pods": [l[:400] for l in seg if not l.startswith("src")][:120]}, True)
            if len(ctx.violations) > nviol or not any(h["fingerprint"] == "inject:%s" % clause for h in ctx.known_hits):
                ok = False  # (a fingerprint listed as known in known-findings.json is reported as KNOWN-FINDING only)
            ctx.count("inject.rejected.%s" % clause)
    # every rendering that was asked for must really have injected pods (a rendering that silently injects nothing is no evidence)
    if tag == "generated":
        for base, (n_cases, n_inj) in sorted(per_base.items()):
            ctx.count("inject.injected.%s" % base, n_inj)
            # (chart-sel decides with policy disabled: only pods its always-selector or their own label asks for are injected)
            if n_cases >= 20 and n_inj < (1 if base == "chart-sel" else 5):
                ctx.tie_broken("inject-coverage",
                               "rendering %s: only %d of %d cases were injected" % (base, n_inj, n_cases), {"stream": "inject"})
                ok = False
        total_inj = sum(v[1] for v in per_base.values())
        if total_inj < max(200, len(cases) // 4):
            ctx.tie_broken("inject-coverage", "only %d of %d generated cases were injected" % (total_inj, len(cases)), {"stream": "inject"})
            ok = False
    return len(cases), ok


def inject_stream(ctx, n):
    """Corpus first, then all fixtures x settings + n generated pods."""
    st = {"cases": 0, "ops": 0, "agree": True}
    ctx.streams["inject"] = st
    files = []
    cdir = os.path.join(os.path.dirname(os.path.dirname(os.path.abspath(__file__))), "harness", "corpus", ctx.pid)
    if os.path.isdir(cdir):
        for f in sorted(os.listdir(cdir)):
            if f.startswith("inject.") and f.endswith(".ops"):
                files.append(("corpus:" + f, os.path.join(cdir, f)))
    ops = os.path.join(ctx.work, "inject.gen.ops")
    if os.path.exists(ops):
        os.remove(ops)
    rc, out = ctx.harness("gen", "inject", ctx.seed, n, ops)
    if rc != 0 or not os.path.exists(ops):
        ctx.tie_broken("harness-gen:inject", out)
        st["agree"] = False
    else:
        files.append(("generated", ops))
    for tag, f in files:
        nc, ok = inject_file(ctx, tag, f)
        st["cases"] += nc
        st["ops"] += nc
        st["agree"] = st["agree"] and ok
    rows_seen = ctx.extra.pop("_rows_seen", {})
    for site, rows in sorted(rows_seen.items()):
        ctx.count("inject.decision-rows-reached.%s" % site, len(rows))   # distinct abstract rows (of 1200) decided at this call site
    ctx.log("stream inject: %d cases, monitors and oracle %s" % (st["cases"], "accept" if st["agree"] else "REJECT / DIFFER"))


def run(ctx):
    ctx.rule = ("table: all 1200 rows of hostNetwork x nsIgnored x label{absent,true,false,'',other} x annotation{same} x neverMatches x "
                "alwaysMatches x policy{enabled,disabled,other}, each under 10 realisation variants (exhaustive); "
                "decide: random concrete pods (0-4 labels, inject label/annotation from 12 values, 12 namespaces, hostNetwork) and configs "
                "(10 policy strings, 0-2 never / always selectors with matchLabels and In/NotIn/Exists/DoesNotExist/invalid expressions, "
                "invalid keys/values, empty selectors), each evaluated again after randomising fields outside the listed inputs; "
                "inject: every fixture document of pkg/kube/inject/testdata/inject under each of 24 chart renderings through the webhook and, "
                "rotating, under webhook-config / URL-path / API-defaulting / HTTP-handler modifiers, and through IntoObject; generated pods "
                "(1-6 containers, probes, lifecycle handlers, ports, init containers, native sidecars, ephemeral containers, 8 volume kinds, user "
                "istio-proxy / istio-init / istio-validation / enable-core-dump, overrides annotation, ~45 steering annotations, labels outside "
                "the listed inputs such as istio.io/rev and istio.io/dataplane-mode, hostPID/IPC) admitted by the webhook; every 4th also through "
                "kube-inject wrapped into each of 10 workload kinds (IntoObject, IntoResourceFile, IntoObject with an Injector); decision-only "
                "ops re-admit the really injected pod / workload changed so that the documented decision is never (redecide, redecide-kube); "
                "each case injected once and twice; distinct = hash of (ops, implementation outputs / reduced pods); non-trivial = pod was "
                "actually injected")
    ctx.assumptions = [
        "the abstraction of injectRequired's inputs to the 1200-row domain is adequate: checked by 10 realisation variants of every row "
        "(decision_deterministic) and by the random concrete stream `decide` against the concrete model, which provably factors through the row",
        "Kubernetes label-selector semantics (LabelSelectorAsSelector, Requirement.Matches, label key/value syntax) are modelled from "
        "k8s.io/apimachinery v0.36.1 and tied by the `decide` stream only",
        "template rendering, strategic merge and post-processing of the inject path are observed (verified monitors), not modelled",
        "sidecar.istio.io/status and proxy.istio.io/overrides annotations on an admitted pod were written by the injector under the same "
        "injector configuration (forged records and a native/non-native switch between two injections are outside the domain)",
        "'user container' = container whose name is not istio-proxy / istio-init / istio-validation / enable-core-dump (those are merged, may "
        "move, must not vanish); 'user volume' = volume whose name the result's (truthful) status annotation does not list as injected; only "
        "name, image, command, args, ports of a user container are promised",
        "a pod names at most one template that defines istio-proxy; a user istio-proxy written as an init container asks for the native placement; "
        "the test-only `custom` template of testdata (it patches istio-proxy under `containers`) is not combined with the native placement",
        "manual injection (kube-inject) decides with policy enabled and no selectors whatever an injector it consults is configured with "
        "(IntoObject falls back to local injection when that injector declines)",
        "kube-inject observes the LAST item of a List / the last document of a file; the items before it (an item of an unknown kind, a "
        "workload that says never) must come back unchanged, further workload items are not judged individually",
        "a repository fixture that is an already injected pod (carries a status annotation) is run under the `default` rendering only",
        "the merge loop of mergeOrAppendProbers with a colliding key is unreachable by injecting the same pod twice since fix 2ef5ee4 and is "
        "not judged; serveInject error paths (bad content type, undecodable body) are not driven",
        "pods in one of the two registered known-finding classes (about 7% of the injected pods of a run: cluster/network variables plus a "
        "post-processed variable, resp. a user istio-proxy with ports) are judged for idempotence only through the exact prediction of "
        "that class (harness knownClass); for them the Lean monitor only says `idempotent <component>`",
        "everything of a user container outside name/image/command/args/ports is covered by idempotence digests only; ephemeral containers "
        "are judged by the Lean monitor as well (clause preserve-ephemeral, judge_ok_ephemeral_preserved)",
        "not exercised: OpenShift UID block, DetectNativeSidecar from node versions, ProxyConfig CRs, config/mesh reload through the watcher, "
        "openshift profile (the template functions env / applicationPorts and the ProxyUID/GID fields are rendered through the harness' own "
        "`verif` template of rendering `funcs`, with the defaults only: GetProxyIDs never sees a namespace)",
    ]
    ctx.trusted.append("pkg/kube/inject/zz_verif_c19.go (verif-tagged accessors: VerifInjectRequired, VerifNewWebhook, VerifInject, VerifInjectPod)")
    ctx.trusted.append("harness/c19 realisation of abstract rows as real Pod/Config objects and reduction of injected pods to the monitor's line form")
    ctx.trusted.append("harness/c19 hand-written pieces the verdicts rest on: the API-server defaulter (apiDefaults), the refusal prediction "
                       "(refusalExpectation), the stated configuration of every setting (loaded.expect, pathEnvs), the predictions that delimit the "
                       "two known-finding classes (knownClass), the oracle-only clauses (network, path-env, injected-annotations, status-fields)")

    if not ctx.go_build():
        return
    # T-gen: regenerate the table from the working tree BEFORE the Lean build
    have_table = gen_table(ctx)
    fails = table_oracle(ctx)
    if fails:
        report_table_fails(ctx, fails)
    if fails is not None:
        ctx.count("oracle.table.rows_x_variants", 1200 * NVARIANTS)
    if not have_table:
        return
    ctx.exhaustive = True
    # what `exhaustive: true` and `level: proof` cover (the evidence schema has one flag for the whole check):
    ctx.extra["exhaustive_scope"] = ("ONLY the decision table: the real injectRequired on all 1200 abstract rows x 10 realisation variants, "
                                     "kernel-checked against the specification. The call sites (Webhook.inject, IntoObject) and the second half of "
                                     "the statement (idempotence, preservation) are PARTIAL: observed on fixtures and generated inputs through "
                                     "verified monitors and an oracle, not enumerated and not proved for all pods.")
    ctx.extra["partial"] = True
    proved = ctx.lean_prove(THEOREMS)
    if not ctx.build_drv():
        return
    streams = [("decide", ctx.n(4000, 150000))]
    for stream, n in streams:
        ctx.diff_stream(stream, n, oracle=oracle)
        imp = os.path.join(ctx.work, "%s.run.impl" % stream)
        if os.path.exists(imp):
            for l in ctx.read_lines(imp):
                if l in ("err", "empty", "hit", "miss"):
                    ctx.count("decide.selector-status.%s" % l)
                elif l in ("0", "1"):
                    ctx.count("decide.decision.%s" % l)
    # the oracle also runs on every generated case (second line, independent of the model)
    for stream, _ in streams:
        g = os.path.join(ctx.work, "%s.gen.ops" % stream)
        if os.path.exists(g):
            out = g + ".verdict"
            if os.path.exists(out):
                os.remove(out)
            rc, log = ctx.harness("oracle", stream, g, out)
            if rc == 0 and os.path.exists(out):
                vs = ctx.read_lines(out)
                ctx.count("oracle.%s.cases" % stream, len(vs))
                if any(v.startswith("FAIL") for v in vs):
                    found = oracle(ctx, stream, ["case 0 %s" % stream], None)
                    if found:
                        ctx.violation(found[0], found[1], found[2], True)
            else:
                ctx.tie_broken("oracle:%s" % stream, "oracle did not run: rc=%s %s" % (rc, log[-2000:]))
    # T-mon: the real webhook path once / twice, judged by the Lean monitors and by the Go oracle
    inject_stream(ctx, ctx.n(1200, 30000))
    if not proved and not ctx.violations:
        pass  # ctx.finish reports the broken proof (no failing input found by table oracle / stream oracles)


def replay(ctx, path):
    obj = json.load(open(path))
    rep = obj.get("replay", {})
    stream = rep.get("stream") or (rep.get("extra") or {}).get("stream")
    ops = rep.get("ops") or (rep.get("extra") or {}).get("ops")
    if not ctx.go_build():
        return
    if stream == "table" or not ops:
        fails = table_oracle(ctx)
        if fails:
            report_table_fails(ctx, fails)
        if stream == "table":
            return
        ctx.log("replay file has no ops; re-running the full check")
        return run(ctx)
    if not ctx.build_drv():
        return
    p = os.path.join(ctx.work, "replay.ops")
    with open(p, "w") as f:
        f.write("\n".join(ops) + "\n")
    if stream == "inject":
        inject_file(ctx, "replay", p)
        return
    ok, impl, model, log = ctx.run_pair(stream, p, "replay")
    m = ctx.compare(stream, p, impl, model)[2] if ok else None
    found = oracle(ctx, stream, ops, m.to_json() if m else None)
    if found:
        ctx.violation(found[0], found[1], found[2], True)
    elif m is not None:
        ctx.tie_broken("correspondence:%s" % stream, "replayed case still differs", m.to_json())
    if ok:
        ctx.account(stream, p, impl)


MANIFEST = {
    "level_text": ("Lean 4 proof. Decision: the real injectRequired is run on its complete abstract input domain (1200 rows x 10 realisation "
                   "variants, incl. all DNS policies with host networking) on every check; Lean proves by kernel evaluation that this table "
                   "equals the documented cascade (inject_table_eq_spec) and the branch-for-branch model (model_eq_impl), that it does not "
                   "depend on anything outside the listed inputs (decision_deterministic), derives every precedence clause for all rows, and "
                   "proves where the code deviates from the literal statement (full_statement_witness: garbage label shadows the annotation, "
                   "illegal policy disables; full_statement_partial elsewhere); the concrete model incl. Kubernetes label-selector matching "
                   "provably factors through the table (concrete_eq_table) and is tied by a differential stream. The two real call sites are "
                   "judged too: every admission through Webhook.inject (pod namespace / request-namespace fallback, webhook Config with policy "
                   "disabled / illegal and never/always selectors - also travelling through the chart and UnmarshalConfig -, ignored namespaces, pods "
                   "that already carry a status annotation, the HTTP handler of NewWebhook) and through IntoObject / IntoResourceFile for every "
                   "workload kind must be skipped iff the documented "
                   "decision says so (judge_decision_checked; missing decision inputs fail), refusals must be predicted, bad patches and unloadable "
                   "configurations fail, the status annotation must be a truthful record (statusTruthfulB_iff). Idempotence / preservation: "
                   "both paths are run once and twice on every pod fixture under 24 renderings (incl. the setFlags/mesh entries of the package's "
                   "own TestInjection: OTel semconv, mesh TPROXY, mesh status port, multus, mtls certs, mesh proxyMetadata) x webhook-config / inject-path / "
                   "API-defaulting variants and on generated pods; Lean monitors proved sound and complete (preservesB_iff, idempotentB_iff, "
                   "judge_*_sound/complete) judge the reduced pods, a Go oracle judges the full objects. Ten defects found this way were "
                   "fixed in /repo (F10a-d, F10f, F10h OTel attributes, F10i kube-inject ignored namespaces, F10j CronJob decision) or are registered as known "
                   "(F10e, F10g, F10n CronJob pod-template annotations ignored by kube-inject); three more fixed in round 5 (F10k-m)."),
    "level_note": ("Trusted: Lean kernel + {propext, Classical.choice, Quot.sound}; the harness' realisation of abstract rows as real objects "
                   "and its reduction of pods; pkg/kube/inject/zz_verif_c19.go; Kubernetes selector semantics modelled from apimachinery "
                   "v0.36.1 and tied by differential testing only; a hand-written API-server defaulter. PARTIAL for the second half of the "
                   "statement: template rendering, strategic merge, overrides re-application and post-processing are observed through "
                   "verified monitors on fixtures and generated pods (quick ~2600 pods, thorough ~35000), not proved for all pods. Known "
                   "violations inside the quantifier: F10e (user istio-proxy with ports: ISTIO_META_POD_PORTS changes on re-injection), F10g "
                   "(cluster/network variables: sidecar env order changes on re-injection), F10n (kube-inject reads a CronJob's jobTemplate.metadata, "
                   "not the pod template's). Assumes status/overrides annotations were written "
                   "by the injector under the same injector configuration; two templates that both define istio-proxy are not combined. Not "
                   "exercised: OpenShift UID handling, DetectNativeSidecar from node versions, ProxyConfig CRs."),
    "technique": ("Lean 4: exhaustive kernel-checked decision table regenerated from the real function (T-gen) + differential concrete model "
                  "(T-diff) + verified monitors and decision judgement on the real webhook and kube-inject paths (T-mon)"),
    "design_ref": "DESIGN.md section 5 C19",
}
