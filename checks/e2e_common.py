"""Shared by C01, C03 and C05: the end-to-end streams of harness/e2e (notes/E2E.md).

The streams run histories against a REAL DiscoveryServer with its real generators, registries and in-process
Envoy-like / ztunnel-like clients, and judge the property's own observable (what the clients hold) - no model is
involved, so a FAIL line is a failing input found on the implementation: fingerprint `e2e:<clause>`, the whole
self-contained history is the replay.  Harness clauses (`harness-*`) are never a verdict about istio.
"""
import json
import os

ROOT = os.path.dirname(os.path.dirname(os.path.abspath(__file__)))


def ready():
    return os.path.exists(os.path.join(ROOT, "harness", "e2e", "READY"))


def build(ctx):
    if "e2e" in getattr(ctx, "bins", {}) and os.path.exists(ctx.bins["e2e"]):
        return True
    keep = getattr(ctx, "bin_path", None)
    # every check builds its own copy of the binary, so that concurrent checks never delete each other's
    ok = ctx.go_build(pkg="e2e", out_name="e2e." + ctx.lc)
    ctx.bin_path = keep
    return ok


def _judge(ctx, stream, line, prefix):
    parts = line.split(" ", 2)
    clause = parts[1] if len(parts) > 1 else "unknown"
    if clause.startswith("harness-"):
        ctx.count("e2e.%s.%s" % (stream, clause))
        return
    ctx.violation("%s:%s" % (prefix, clause),
                  "real DiscoveryServer with real generators: %s (stream e2e/%s)" % (clause, stream),
                  {"stream": "e2e/" + stream, "line": line}, True)


def run(ctx, stream, ncases, prefix="e2e"):
    """One end-to-end stream: corpus first, then `ncases` generated histories."""
    if not ready() or not build(ctx):
        ctx.count("e2e.%s.skipped" % stream)
        return
    out = os.path.join(ctx.work, "e2e.%s.out" % stream)
    for attempt in (1, 2):
        if os.path.exists(out):
            os.remove(out)
        rc, log = ctx.harness("run", stream, ctx.seed, ncases, out, pkg="e2e", timeout=2400)
        if rc == 0 and os.path.exists(out):
            break
        if attempt == 1 and rc == 3:
            # a case did not return within 4 minutes: on an overloaded machine that is not a fact about istio - once more
            ctx.count("e2e.%s.hung-run-repeated" % stream)
            continue
        ctx.tie_broken("e2e-run:%s" % stream, "harness/e2e run %s: exit %s\n%s" % (stream, rc, log[-3000:]))
        return
    st = {"cases": 0, "ops": 0, "agree": True}
    for line in ctx.read_lines(out):
        if line.startswith("STATS"):
            try:
                stats = json.loads(line[6:])
                ctx.extra["e2e_%s" % stream] = stats
                st["ops"] = int(stats.get("steps", 0))
            except ValueError:
                pass
            continue
        if not line.strip():
            continue
        st["cases"] += 1
        sample = None
        if not any(s.get("stream") == "e2e/" + stream for s in ctx.samples):
            sample = {"stream": "e2e/" + stream, "result": line[:400]}
        ctx.note_case("e2e:%s:%s" % (stream, line), True, sample)
        ctx.count("e2e.%s.%s" % (stream, line.split(" ", 1)[0]))
        if line.startswith("FAIL"):
            st["agree"] = False if not line.split(" ", 2)[1].startswith("harness-") else st["agree"]
            _judge(ctx, stream, line, prefix)
    ctx.streams["e2e/" + stream] = st
    ctx.log("stream e2e/%s: %d cases, %d steps" % (stream, st["cases"], st["ops"]))


def is_e2e_replay(rep):
    return str(rep.get("stream", "")).startswith("e2e/") and rep.get("line")


def replay(ctx, rep, prefix="e2e"):
    stream = rep["stream"][4:]
    if not build(ctx):
        return
    p = os.path.join(ctx.work, "e2e.replay.json")
    with open(p, "w") as f:
        f.write(rep["line"] + "\n")
    rc, log = ctx.harness("replay", stream, p, pkg="e2e", timeout=900)
    verdict = [l for l in log.splitlines() if l.startswith("OK") or l.startswith("FAIL")]
    if rc != 0 or not verdict:
        ctx.tie_broken("e2e-run:%s" % stream, "harness/e2e replay %s: exit %s\n%s" % (stream, rc, log[-3000:]))
        return
    ctx.log("e2e replay: " + verdict[-1][:300])
    if verdict[-1].startswith("FAIL"):
        _judge(ctx, stream, verdict[-1], prefix)
