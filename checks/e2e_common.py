"""Shared by C01, C03 and C05: the end-to-end streams of harness/e2e (notes/E2E.md).

The streams run histories against a REAL DiscoveryServer with its real generators, registries and in-process
Envoy-like / ztunnel-like clients, and judge the property's own observable (what the clients hold) - no model is
involved, so a FAIL line is a failing input found on the implementation: fingerprint `e2e:<clause>`, the whole
self-contained history is the replay.

Harness clauses (`harness-*`: no quiescence, a panic or an error inside the harness) are not a verdict about one
case, but a run in which the harness could not judge is not a pass either: the run is reported as a broken tie
(`tie-broken:e2e-harness:<stream>`, exit 1) when
  * a corpus case ends in a harness clause (corpus cases are known to run cleanly on /repo),
  * more than HARNESS_SHARE of the cases do (at least 2), or
  * no case at all ended OK.
A server that hangs on every case therefore fails the check.
"""
import json
import os
import threading

ROOT = os.path.dirname(os.path.dirname(os.path.abspath(__file__)))

HARNESS_SHARE = 0.10


def ready():
    return os.path.exists(os.path.join(ROOT, "harness", "e2e", "READY"))


def build(ctx):
    if "e2e" in getattr(ctx, "bins", {}) and os.path.exists(ctx.bins["e2e"]):
        return True
    keep = getattr(ctx, "bin_path", None)
    # every check builds its own copy of the binary, so that concurrent checks never delete each other's
    ok = ctx.go_build(pkg="e2e", out_name="e2e." + ctx.lc)
    ctx.bin_path = keep
    return ok


def _clause(line):
    parts = line.split(" ", 2)
    return parts[1] if len(parts) > 1 else "unknown"


def _judge(ctx, stream, line, prefix):
    clause = _clause(line)
    if clause.startswith("harness-"):
        ctx.count("e2e.%s.%s" % (stream, clause))
        return
    ctx.violation("%s:%s" % (prefix, clause),
                  "real DiscoveryServer with real generators: %s (stream e2e/%s)" % (clause, stream),
                  {"stream": "e2e/" + stream, "line": line}, True)


def _is_corpus(line):
    return line.startswith("OK corpus=") or '"corpus":"' in line


def _run_shard(ctx, stream, ncases, out, shard, shards, res):
    """One process of the harness; res[shard] = None (fine) or an error text."""
    env = {"E2E_SHARD": "%d/%d" % (shard, shards)} if shards > 1 else None
    for attempt in (1, 2):
        if os.path.exists(out):
            os.remove(out)
        rc, log = ctx.harness("run", stream, ctx.seed, ncases, out, pkg="e2e", timeout=2400, env_extra=env)
        if rc == 0 and os.path.exists(out):
            res[shard] = None
            return
        if attempt == 1 and rc == 3:
            # a case did not return within 4 minutes: on an overloaded machine that is not a fact about istio - once more
            res["repeated"] = res.get("repeated", 0) + 1
            continue
        res[shard] = "harness/e2e run %s (shard %d/%d): exit %s\n%s" % (stream, shard, shards, rc, log[-3000:])
        return


def _merge_stats(total, stats):
    for k, v in stats.items():
        if isinstance(v, dict):
            d = total.setdefault(k, {})
            for kk, vv in v.items():
                d[kk] = d.get(kk, 0) + vv
        elif isinstance(v, (int, float)):
            total[k] = max(total.get(k, 0), v) if k == "millis" else total.get(k, 0) + v


def run(ctx, stream, ncases, prefix="e2e", shards=1):
    """One end-to-end stream: corpus first, then `ncases` generated histories. With shards > 1 the same case list
    is played by that many processes side by side, each taking every shards-th case (deterministic per seed)."""
    if not ready() or not build(ctx):
        ctx.count("e2e.%s.skipped" % stream)
        return
    outs = [os.path.join(ctx.work, "e2e.%s.out" % stream) if shards == 1 else
            os.path.join(ctx.work, "e2e.%s.%d.out" % (stream, i)) for i in range(shards)]
    res = {}
    threads = [threading.Thread(target=_run_shard, args=(ctx, stream, ncases, outs[i], i, shards, res)) for i in range(shards)]
    for t in threads:
        t.start()
    for t in threads:
        t.join()
    if res.get("repeated"):
        ctx.count("e2e.%s.hung-run-repeated" % stream, res["repeated"])
    for i in range(shards):
        if res.get(i) is not None:
            ctx.tie_broken("e2e-run:%s" % stream, res[i])
            return
    st = {"cases": 0, "ops": 0, "agree": True}
    total = {}
    n_ok, n_harness, corpus_harness, harness_lines = 0, 0, [], []
    for out in outs:
        for line in ctx.read_lines(out):
            if line.startswith("STATS"):
                try:
                    _merge_stats(total, json.loads(line[6:]))
                except ValueError:
                    pass
                continue
            if not line.strip():
                continue
            st["cases"] += 1
            sample = None
            if not any(s.get("stream") == "e2e/" + stream for s in ctx.samples):
                sample = {"stream": "e2e/" + stream, "result": line[:400]}
            ctx.note_case("e2e:%s:%s" % (stream, line), True, sample)
            ctx.count("e2e.%s.%s" % (stream, line.split(" ", 1)[0]))
            if line.startswith("OK"):
                n_ok += 1
            elif line.startswith("FAIL"):
                if _clause(line).startswith("harness-"):
                    n_harness += 1
                    harness_lines.append(line[:1500])
                    if _is_corpus(line):
                        corpus_harness.append(line)
                else:
                    st["agree"] = False
                _judge(ctx, stream, line, prefix)
    if total:
        ctx.extra["e2e_%s" % stream] = total
        st["ops"] = int(total.get("steps", 0))
    ctx.streams["e2e/" + stream] = st
    ctx.log("stream e2e/%s: %d cases, %d steps" % (stream, st["cases"], st["ops"]))
    # a corpus case that ended in a harness clause is played once more on its own (an overloaded machine is not a
    # fact about istio); only if it does so again it counts
    still = []
    for k, line in enumerate(corpus_harness):
        p = os.path.join(ctx.work, "e2e.%s.corpus-retry.%d.json" % (stream, k))
        with open(p, "w") as f:
            f.write(line + "\n")
        rc, log = ctx.harness("replay", stream, p, pkg="e2e", timeout=900)
        verdict = [l for l in log.splitlines() if l.startswith("OK") or l.startswith("FAIL")]
        ctx.count("e2e.%s.corpus-case-repeated" % stream)
        if rc != 0 or not verdict or (verdict[-1].startswith("FAIL") and _clause(verdict[-1]).startswith("harness-")):
            still.append(line[:1500])
        elif verdict[-1].startswith("FAIL"):
            _judge(ctx, stream, verdict[-1], prefix)
    n_harness -= len(corpus_harness) - len(still)
    corpus_harness = still
    # a run the harness could not judge is not a pass
    why = None
    if corpus_harness:
        why = "%d corpus case(s) ended in a harness clause" % len(corpus_harness)
    elif n_harness >= 2 and n_harness > HARNESS_SHARE * st["cases"]:
        why = "%d of %d cases ended in a harness clause (more than %d%%)" % (n_harness, st["cases"], int(HARNESS_SHARE * 100))
    elif st["cases"] > 0 and n_ok == 0:
        why = "no case of %d ended OK" % st["cases"]
    elif st["cases"] == 0:
        why = "the run produced no case line"
    if why:
        st["agree"] = False
        ctx.tie_broken("e2e-harness:%s" % stream,
                       "stream e2e/%s could not be judged: %s\n%s" % (stream, why, "\n".join(l[:1500] for l in (corpus_harness or harness_lines)[:4])))


def is_e2e_replay(rep):
    return str(rep.get("stream", "")).startswith("e2e/") and rep.get("line")


def replay(ctx, rep, prefix="e2e"):
    stream = rep["stream"][4:]
    if not build(ctx):
        return
    p = os.path.join(ctx.work, "e2e.replay.json")
    with open(p, "w") as f:
        f.write(rep["line"] + "\n")
    rc, log = ctx.harness("replay", stream, p, pkg="e2e", timeout=900)
    verdict = [l for l in log.splitlines() if l.startswith("OK") or l.startswith("FAIL")]
    if rc != 0 or not verdict:
        ctx.tie_broken("e2e-run:%s" % stream, "harness/e2e replay %s: exit %s\n%s" % (stream, rc, log[-3000:]))
        return
    ctx.log("e2e replay: " + verdict[-1][:300])
    if verdict[-1].startswith("FAIL"):
        _judge(ctx, stream, verdict[-1], prefix)
        if _clause(verdict[-1]).startswith("harness-"):
            ctx.tie_broken("e2e-harness:%s" % stream, "the replayed case ended in a harness clause\n" + verdict[-1][:1500])
